mod adapter;
fn main(){ let _ = adapter::Ind::new("SMA",&[3],1.0); }
