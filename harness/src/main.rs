mod adapter;
mod alloc;
mod drive;
mod fpenv;
mod replay;
mod tables;
mod units;

use serde_json::{json, Value};
use std::io::{BufRead, BufReader, Write};

#[global_allocator]
static GLOBAL: alloc::Counting = alloc::Counting;

fn arg(args: &[String], name: &str) -> Option<String> {
    args.iter().position(|a| a == name).and_then(|i| args.get(i + 1).cloned())
}

/// TLC prints `<<"REPLAY", "{\"ops\":...}">>`; return the JSON text inside, if this is such a line.
pub fn tlc_payload(line: &str, tag: &str) -> Option<String> {
    let prefix = format!("<<\"{}\", \"", tag);
    let l = line.trim_end();
    if !l.starts_with(&prefix) || !l.ends_with("\">>") {
        return None;
    }
    let inner = &l[prefix.len()..l.len() - 3];
    let mut out = String::with_capacity(inner.len());
    let mut it = inner.chars();
    while let Some(c) = it.next() {
        if c == '\\' {
            match it.next() {
                Some('"') => out.push('"'),
                Some('\\') => out.push('\\'),
                Some('n') => out.push('\n'),
                Some('t') => out.push('\t'),
                Some(o) => {
                    out.push('\\');
                    out.push(o)
                }
                None => {}
            }
        } else {
            out.push(c);
        }
    }
    Some(out)
}

fn read_behaviours(path: &str) -> Vec<(u64, String)> {
    let f = std::fs::File::open(path).unwrap_or_else(|e| {
        eprintln!("cannot open {}: {}", path, e);
        std::process::exit(2)
    });
    let mut v = vec![];
    // STEP lines (one per transition of a scripted run) are reassembled into one behaviour
    let mut ops: Vec<Value> = vec![];
    let mut obs: Vec<Value> = vec![];
    for (n, line) in BufReader::new(f).lines().enumerate() {
        let line = line.unwrap();
        if let Some(p) = tlc_payload(&line, "REPLAY") {
            v.push((n as u64 + 1, p));
        } else if let Some(p) = tlc_payload(&line, "STEP") {
            let s: Value = serde_json::from_str(&p).unwrap_or_else(|e| {
                eprintln!("bad STEP line {}: {}", n + 1, e);
                std::process::exit(2)
            });
            ops.push(s["op"].clone());
            obs.push(s["ob"].clone());
        } else if line.starts_with('{') {
            v.push((n as u64 + 1, line));
        }
    }
    if !ops.is_empty() {
        v.push((0, serde_json::to_string(&json!({"ops": ops, "obs": obs})).unwrap()));
    }
    v
}

fn cmd_replay(args: &[String]) -> i32 {
    let prop = arg(args, "--prop").expect("--prop");
    let tier = arg(args, "--tier").unwrap_or("quick".into());
    let seed: u64 = arg(args, "--seed").and_then(|s| s.parse().ok()).unwrap_or(0);
    let input = arg(args, "--in").expect("--in");
    let out = arg(args, "--out").expect("--out");
    let threads: usize = arg(args, "--threads").and_then(|s| s.parse().ok()).unwrap_or(8);
    let only_line: Option<u64> = arg(args, "--line").and_then(|s| s.parse().ok());
    let max_units: usize = arg(args, "--max-units").and_then(|s| s.parse().ok()).unwrap_or(1000);
    let mut units = units::unit_list(&tier, seed);
    if let Some(u) = arg(args, "--unit") {
        let v: Value = serde_json::from_str(&u).expect("--unit json");
        units = vec![units::Unit { a: v["a"].as_f64().unwrap(), b: v["b"].as_f64().unwrap(), av: v["av"].as_f64().unwrap(), big: v["big"].as_f64().unwrap(), nz: v["nz"].as_bool().unwrap_or(false) }];
    }
    if arg(args, "--unit").is_none() && matches!(prop.as_str(), "C04" | "C05" | "C06" | "C07" | "C08" | "C09" | "C10" | "C12" | "C17" | "C18") {
        units.extend(units::warped_units(&tier));
    }
    if arg(args, "--unit").is_none() && prop == "C08" {
        units.push(units::Unit::new(0.01, 0.0)); // cents: whether x/x-style re-associations are exact depends on the digits of the level
        units.push(units::Unit::new(0.001, 0.0));
    }
    if arg(args, "--unit").is_none() && prop == "C05" {
        // signed zeros: the lattice value 0 is fed as -0.0 on every other call of an instance (numerically the same stream, so every
        // expectation stands; bit-for-bit comparisons between a clone and its original, or two instances with one history, now
        // also see which of two equal zeros an implementation picks)
        units.push(units::Unit { nz: true, ..units::Unit::new(1.0, 0.0) });
    }
    if arg(args, "--unit").is_none() && prop == "C09" {
        // lattice steps of one or two ulps on top of a large offset: cancellation at the last bit (dispersion must stay >= 0)
        units.push(units::Unit::new(2f64.powi(-16), 120010000000.0));
        units.push(units::Unit::new(2f64.powi(-15), 120010000000.0));
        units.push(units::Unit::new(2f64.powi(-38), 30000.0));
        units.push(units::Unit::new(1.0, -1000.0)); // negative price levels (shift-covariant kinds only)
    }
    units.truncate(max_units);
    let lines = read_behaviours(&input);
    let lines: Vec<(u64, String)> = match only_line {
        Some(n) => lines.into_iter().filter(|(k, _)| *k == n).collect(),
        None => lines,
    };
    let nl = lines.len();
    let chunk = (nl + threads - 1) / threads.max(1);
    let lines = std::sync::Arc::new(lines);
    let units = std::sync::Arc::new(units);
    // a panic inside the code under test is data: keep the default hook quiet
    std::panic::set_hook(Box::new(|_| {}));
    let mut handles = vec![];
    for th in 0..threads {
        let lines = lines.clone();
        let units = units.clone();
        let prop = prop.clone();
        let tier = tier.clone();
        handles.push(std::thread::spawn(move || {
            let mut ctx = replay::Ctx::new(&prop);
            let lo = th * chunk;
            let hi = ((th + 1) * chunk).min(lines.len());
            let mut samples: Vec<Value> = vec![];
            for k in lo..hi.max(lo) {
                let (no, text) = &lines[k];
                let v: Value = match serde_json::from_str(text) {
                    Ok(v) => v,
                    Err(e) => {
                        eprintln!("bad behaviour line {}: {}", no, e);
                        std::process::exit(2);
                    }
                };
                if samples.len() < 1 {
                    samples.push(v.clone());
                }
                if prop == "C14" {
                    ctx.stats.behaviours += 1;
                    replay::covariance(&mut ctx, &v, *no, &tier);
                    continue;
                }
                for u in units.iter() {
                    if let Some(uu) = replay::unit_ok(&v, u) {
                        let mut run = replay::Run::new(&uu, *no);
                        run.exec(&mut ctx, &v);
                    }
                }
            }
            (ctx, samples)
        }));
    }
    let mut stats = replay::Stats::default();
    let mut violations: Vec<Value> = vec![];
    let mut vio_total = 0u64;
    let mut distinct = std::collections::HashSet::new();
    let mut samples = vec![];
    let mut by_kind: std::collections::HashMap<String, [u64; 3]> = std::collections::HashMap::new();
    let mut global: std::collections::HashMap<(u64, u64, u64), (u64, u64)> = std::collections::HashMap::new();
    for h in handles {
        let (c, s) = h.join().expect("worker thread");
        // C05 across threads: the same configuration and history must have given the same bits everywhere
        for (k, (oh, line)) in c.global.iter() {
            match global.get(k) {
                None => {
                    global.insert(*k, (*oh, *line));
                }
                Some((first, l0)) => {
                    stats.det_compared += 1;
                    if first != oh {
                        vio_total += 1;
                        violations.push(json!({"property": prop, "clause": "same-history-different-bits-across-threads", "line": line, "step": 0,
                            "kind": "", "per": [], "mult": 0.0, "t": k.2, "unit": {"a": 1.0, "b": 0.0, "av": 1.0, "big": 1e6},
                            "detail": {"other_line": l0}}));
                    }
                }
            }
        }
        let a = &c.stats;
        stats.behaviours += a.behaviours;
        stats.ops += a.ops;
        stats.steps += a.steps;
        stats.fields_compared += a.fields_compared;
        stats.skipped_ill += a.skipped_ill;
        stats.skipped_undef += a.skipped_undef;
        stats.skipped_ovf += a.skipped_ovf;
        stats.skipped_tainted += a.skipped_tainted;
        stats.skipped_tie += a.skipped_tie;
        stats.det_compared += a.det_compared;
        stats.markov_checked += a.markov_checked;
        stats.eff_compared += a.eff_compared;
        stats.range_checked += a.range_checked;
        stats.deg_checked += a.deg_checked;
        stats.ord_checked += a.ord_checked;
        stats.ord_zero_slack += a.ord_zero_slack;
        stats.returns_checked += a.returns_checked;
        stats.size_checked += a.size_checked;
        stats.heap_checked += a.heap_checked;
        stats.wired_compared += a.wired_compared;
        stats.max_heap_growth = stats.max_heap_growth.max(a.max_heap_growth);
        stats.panics += a.panics;
        stats.max_rel_err = stats.max_rel_err.max(a.max_rel_err);
        vio_total += c.vio_total;
        violations.extend(c.violations);
        distinct.extend(c.distinct);
        samples.extend(s);
        for (k, v) in c.by_kind.iter() {
            let e = by_kind.entry(k.clone()).or_insert([0u64; 3]);
            for j in 0..3 {
                e[j] += v[j];
            }
        }
    }
    samples.truncate(3);
    let res = json!({
        "prop": prop, "tier": tier, "seed": seed, "lines": nl, "units": units.len(),
        "unit_labels": units.iter().map(|u| u.label()).collect::<Vec<_>>(),
        "stats": replay::stats_json(&stats), "distinct": distinct.len(),
        "violations_total": vio_total, "violations": violations, "samples": samples,
        "by_kind": by_kind.iter().map(|(k, v)| (k.clone(), json!({"steps": v[0], "values": v[1], "relational": v[2]}))).collect::<serde_json::Map<String, Value>>()
    });
    let mut f = std::fs::File::create(&out).expect("create out");
    f.write_all(serde_json::to_string(&res).unwrap().as_bytes()).unwrap();
    0
}

/// `tables --what ctor|dataitem --in FILE --out FILE`: replay of Ctor.tla / DataItem.tla cases
fn cmd_tables(args: &[String]) -> i32 {
    let what = arg(args, "--what").expect("--what");
    let input = arg(args, "--in").expect("--in");
    let out_path = arg(args, "--out").expect("--out");
    std::panic::set_hook(Box::new(|_| {}));
    let f = std::fs::File::open(&input).unwrap_or_else(|e| {
        eprintln!("cannot open {}: {}", input, e);
        std::process::exit(2)
    });
    let mut out = tables::Out::new();
    for (n, line) in BufReader::new(f).lines().enumerate() {
        let line = line.unwrap();
        let no = n as u64 + 1;
        if let Some(p) = tlc_payload(&line, "REPLAY") {
            let v: Value = serde_json::from_str(&p).unwrap_or_else(|e| {
                eprintln!("bad line {}: {}", no, e);
                std::process::exit(2)
            });
            if what == "ctor" {
                tables::ctor_case(&mut out, no, &v);
            } else {
                tables::dataitem_case(&mut out, no, &v);
            }
        } else if let Some(p) = tlc_payload(&line, "DEFAULTS") {
            let v: Value = serde_json::from_str(&p).unwrap();
            tables::default_cases(&mut out, no, &v);
        }
    }
    let res = json!({
        "prop": if what == "ctor" { "C11" } else { "C16" }, "lines": out.cases, "units": 1,
        "stats": {"behaviours": out.cases, "steps": out.checks, "ops": out.checks, "cases_by_expected_result": out.by_result},
        "distinct": out.distinct.len(), "violations_total": out.vio_total, "violations": out.violations, "samples": out.samples
    });
    std::fs::write(&out_path, serde_json::to_string(&res).unwrap()).unwrap();
    0
}

/// `streams --sched FILE --in TLC_OUT --out FILE --tier T --seed N`: a schedule (pattern x repetitions segments) is
/// expanded into up to 2*10^6 real calls per price unit; at the steps sampled by the specification (Streams.tla)
/// the output is compared with TLC's exact expectation for the window at that step.
fn cmd_streams(args: &[String]) -> i32 {
    let sched_path = arg(args, "--sched").expect("--sched");
    let input = arg(args, "--in").expect("--in");
    let out_path = arg(args, "--out").expect("--out");
    let tier = arg(args, "--tier").unwrap_or("quick".into());
    let seed: u64 = arg(args, "--seed").and_then(|s| s.parse().ok()).unwrap_or(0);
    let sj: Value = serde_json::from_str(&std::fs::read_to_string(&sched_path).expect("sched")).expect("sched json");
    let prop = sj["prop"].as_str().unwrap_or("C13").to_string();
    let mut expects: std::collections::HashMap<u64, Value> = std::collections::HashMap::new();
    let f = std::fs::File::open(&input).expect("tlc out");
    for line in BufReader::new(f).lines() {
        let line = line.unwrap();
        if let Some(p) = tlc_payload(&line, "EXPECT") {
            let v: Value = serde_json::from_str(&p).expect("EXPECT json");
            expects.insert(v["at"].as_u64().unwrap_or(v["t"].as_u64().unwrap()), v);
        }
    }
    let mut units = units::unit_list(&tier, seed);
    if let Some(u) = arg(args, "--unit") {
        let v: Value = serde_json::from_str(&u).expect("--unit json");
        units = vec![units::Unit { a: v["a"].as_f64().unwrap(), b: v["b"].as_f64().unwrap(), av: v["av"].as_f64().unwrap(), big: v["big"].as_f64().unwrap(), nz: v["nz"].as_bool().unwrap_or(false) }];
    }
    let max_units: usize = arg(args, "--max-units").and_then(|s| s.parse().ok()).unwrap_or(1000);
    units.truncate(max_units);
    let newop = json!({"op": "new", "i": 1, "kind": sj["kind"], "per": sj["per"], "m": sj["m"], "seed": sj["seed"], "mem": sj["mem"]});
    let head = json!({"ops": [newop], "obs": [{"t": 0}]});
    std::panic::set_hook(Box::new(|_| {}));
    let expects = std::sync::Arc::new(expects);
    let sj = std::sync::Arc::new(sj);
    let head = std::sync::Arc::new(head);
    let mut handles = vec![];
    for u in units.iter() {
        let uu = match replay::unit_ok(&head, u) {
            Some(x) => x,
            None => continue,
        };
        let (expects, sj, head, prop) = (expects.clone(), sj.clone(), head.clone(), prop.clone());
        handles.push(std::thread::spawn(move || {
            let mut ctx = replay::Ctx::new(&prop);
            let mut run = replay::Run::new(&uu, 0);
            run.exec(&mut ctx, &head);
            let mut t: u64 = 0;
            let reset_at = sj["reset_at"].as_u64().unwrap_or(0);
            let reset_line = json!({"ops": [{"op": "reset", "i": 1}], "obs": [{"t": 0}]});
            for seg in sj["sched"].as_array().unwrap() {
                let pat: Vec<Value> = seg["pat"].as_array().unwrap().iter().map(|o| {
                    let mut o = o.clone();
                    o["i"] = json!(1);
                    o
                }).collect();
                let reps = seg["reps"].as_u64().unwrap();
                let ramp = seg["ramp"].as_i64().unwrap_or(0);
                for rep in 0..reps {
                    let moved: Vec<Value>;
                    let pat_now: &Vec<Value> = if ramp == 0 || rep == 0 {
                        &pat
                    } else {
                        let d = ramp * rep as i64;
                        moved = pat.iter().map(|o| {
                            let mut o = o.clone();
                            for k in ["x", "o", "h", "l", "c"] {
                                if let Some(v) = o.get(k).and_then(|v| v.as_i64()) {
                                    o[k] = json!(v + d);
                                }
                            }
                            o
                        }).collect();
                        &moved
                    };
                    for op in pat_now.iter() {
                        t += 1;
                        let ob = expects.get(&t);
                        if let Some(o) = ob {
                            // the harness's expansion of the schedule must agree with the specification's StreamAt
                            let i = &o["in"];
                            let same = if op["op"] == "s" { i["x"] == op["x"] } else { ["o", "h", "l", "c", "v"].iter().all(|k| i[*k] == op[*k]) };
                            if !same {
                                eprintln!("schedule expansion disagrees with StreamAt at t={}: {} vs {}", t, op, i);
                                std::process::exit(2);
                            }
                        }
                        run.feed(&mut ctx, t as usize, op, ob);
                        if reset_at > 0 && t == reset_at {
                            run.exec(&mut ctx, &reset_line);
                        }
                    }
                }
            }
            (ctx, t)
        }));
    }
    let mut stats = replay::Stats::default();
    let mut by_kind: std::collections::HashMap<String, [u64; 3]> = std::collections::HashMap::new();
    let mut violations: Vec<Value> = vec![];
    let mut vio_total = 0u64;
    let mut total = 0;
    for h in handles {
        let (c, t) = h.join().expect("worker");
        total = t;
        let a = &c.stats;
        stats.behaviours += 1;
        stats.steps += a.steps;
        stats.ops += a.steps;
        stats.fields_compared += a.fields_compared;
        stats.skipped_ill += a.skipped_ill;
        stats.skipped_undef += a.skipped_undef;
        stats.skipped_ovf += a.skipped_ovf;
        stats.skipped_tie += a.skipped_tie;
        stats.panics += a.panics;
        stats.size_checked += a.size_checked;
        stats.heap_checked += a.heap_checked;
        stats.max_heap_growth = stats.max_heap_growth.max(a.max_heap_growth);
        stats.max_rel_err = stats.max_rel_err.max(a.max_rel_err);
        vio_total += c.vio_total;
        violations.extend(c.violations);
        for (k, v) in c.by_kind.iter() {
            let e = by_kind.entry(k.clone()).or_insert([0u64; 3]);
            for j in 0..3 {
                e[j] += v[j];
            }
        }
    }
    let mut sample_ts: Vec<u64> = expects.keys().cloned().collect();
    sample_ts.sort();
    let res = json!({
        "prop": prop, "tier": tier, "seed": seed, "lines": 1, "units": units.len(),
        "stats": replay::stats_json(&stats), "distinct": expects.len(), "stream_length": total,
        "violations_total": vio_total, "violations": violations,
        "by_kind": by_kind.iter().map(|(k, v)| (k.clone(), json!({"steps": v[0], "values": v[1], "relational": v[2]}))).collect::<serde_json::Map<String, Value>>(),
        "samples": [{"kind": sj["kind"], "per": sj["per"], "sched": sj["sched"].as_array().unwrap().iter().map(|g| json!({"pat_len": g["pat"].as_array().unwrap().len(), "pat_head": g["pat"].as_array().unwrap().iter().take(6).collect::<Vec<_>>(), "reps": g["reps"]})).collect::<Vec<_>>(), "sampled_steps": sample_ts}]
    });
    std::fs::write(&out_path, serde_json::to_string(&res).unwrap()).unwrap();
    0
}

fn main() {
    let args: Vec<String> = std::env::args().collect();
    let code = match args.get(1).map(|s| s.as_str()) {
        Some("replay") => cmd_replay(&args[2..]),
        Some("tables") => cmd_tables(&args[2..]),
        Some("streams") => cmd_streams(&args[2..]),
        Some("drive") => {
            let a = &args[2..];
            drive::cmd_drive(
                arg(a, "--seed").and_then(|s| s.parse().ok()).unwrap_or(0),
                arg(a, "--threads").and_then(|s| s.parse().ok()).unwrap_or(4),
                arg(a, "--ops").and_then(|s| s.parse().ok()).unwrap_or(500),
                arg(a, "--faults").map(|s| s == "1").unwrap_or(false),
                &arg(a, "--out").expect("--out"),
            )
        }
        _ => {
            eprintln!("usage: taverif replay --prop Cxx --tier quick|thorough --seed N --in FILE --out FILE");
            2
        }
    };
    std::process::exit(code);
}
