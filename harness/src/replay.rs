//! Spec -> impl replay: executes TLC-generated behaviours (ops + the specification's expected
//! observation for each op) against the real crate and compares after every op.
//! This file contains no indicator arithmetic: expected values come from TLC as exact rationals.

use crate::adapter::{observe, Bar, Ind};
use crate::units::{shift_ok, Unit};
use serde_json::{json, Value};
use std::collections::hash_map::DefaultHasher;
use std::collections::{HashMap, HashSet};
use std::hash::{Hash, Hasher};
use std::panic::{catch_unwind, AssertUnwindSafe};

pub fn tau(t: u64) -> f64 {
    1e-12 + 1e-15 * (t as f64).powf(1.5)
}

#[derive(Clone, Debug)]
pub struct Cfg {
    pub kind: String,
    pub per: Vec<usize>,
    pub m: f64,
    pub seed: f64,
    pub key: String,
    pub mem: usize,
}

fn nper(kind: &str) -> usize {
    match kind {
        "TR" | "OBV" => 0,
        "MACD" | "PPO" => 3,
        "SLOW_STOCH" => 2,
        _ => 1,
    }
}

fn rat(v: &Value) -> (i64, i64) {
    (v[0].as_i64().unwrap_or(0), v[1].as_i64().unwrap_or(0))
}

#[derive(Clone)]
pub struct Live {
    pub ind: Ind,
    pub cfg: Cfg,
    pub t: u64,
    pub mag: f64,    // largest price magnitude fed since reset
    pub strict: u64, // hash of the literal input sequence since reset
    pub eff: u64,    // hash of the effective input sequence since reset
    pub cmax: f64,   // largest condition number since reset (smoothed oscillators)
    pub tainted: bool,
    pub dead: bool, // a panic escaped from this instance
    pub len0: Option<usize>, // serialized length after the first input (C18)
    pub last: Vec<f64>,      // raw outputs of the previous step
    pub last_in: f64,        // previous scalar input (EMA restart check)
    pub shadow: Option<Ind>, // C04: a freshly constructed instance fed the same inputs since the last reset
    pub inputs: Vec<InRec>,  // C17: the real inputs since reset
    pub mem: usize,          // Memory(kind, p) from the specification (0 = unbounded)
    pub pair: Option<Ind>,   // C09: a Maximum of the same period fed the same scalars as this Minimum
    pub heap: i64,           // C18: net heap bytes allocated inside next() since construction / reset
    pub parts: Option<Parts>,// C15: the public building blocks, wired by hand
    pub pmin: f64,           // smallest / largest price fed since reset (their difference: the spread scale of the stream)
    pub pmax: f64,
}

#[derive(Clone, Copy, Debug)]
pub enum InRec {
    S(f64),
    B(Bar),
}

#[derive(Default, Clone)]
pub struct Stats {
    pub behaviours: u64,
    pub ops: u64,
    pub steps: u64,
    pub fields_compared: u64,
    pub skipped_ill: u64,
    pub skipped_undef: u64,
    pub skipped_ovf: u64,
    pub skipped_tainted: u64,
    pub skipped_tie: u64,
    pub det_compared: u64,
    pub markov_checked: u64,
    pub eff_compared: u64,
    pub range_checked: u64,
    pub deg_checked: u64,
    pub ord_checked: u64,
    pub ord_zero_slack: u64,
    pub returns_checked: u64,
    pub size_checked: u64,
    pub heap_checked: u64,
    pub max_heap_growth: i64,
    pub wired_compared: u64,
    pub panics: u64,
    pub max_rel_err: f64, // largest observed |err| / tolerance among compared fields
}

pub struct Ctx {
    // per kind: [steps observed, value fields compared, relational comparisons (determinism / effective input / suffix / parts / range / degenerate / order)]
    pub by_kind: HashMap<String, [u64; 3]>,
    // C05: (configuration, literal history) -> (hash of output bits, behaviour line), across all behaviours
    pub global: HashMap<(u64, u64, u64), (u64, u64)>,
    pub prop: String,
    pub stats: Stats,
    pub violations: Vec<Value>,
    pub vio_total: u64,
    pub distinct: HashSet<u64>,
    pub max_vio: usize,
}

fn h2(a: u64, v: &[i64], tag: u8) -> u64 {
    let mut h = DefaultHasher::new();
    a.hash(&mut h);
    tag.hash(&mut h);
    v.hash(&mut h);
    h.finish()
}

fn tok_val(s: &str) -> f64 {
    match s {
        "NaN" => f64::NAN,
        "PInf" => f64::INFINITY,
        "NInf" => f64::NEG_INFINITY,
        "FMax" => f64::MAX,
        "NFMax" => -f64::MAX,
        "Sub" => 5e-324,
        "NZero" => -0.0,
        _ => 0.0,
    }
}

fn same_bits(a: f64, b: f64) -> bool {
    a.to_bits() == b.to_bits() || (a.is_nan() && b.is_nan())
}

/// numerically equal, NaN equal to NaN, -0.0 equal to 0.0
fn num_eq(a: f64, b: f64) -> bool {
    a == b || (a.is_nan() && b.is_nan())
}

fn rel_close(a: f64, b: f64, rel: f64, floor: f64) -> bool {
    if num_eq(a, b) {
        return true;
    }
    if !a.is_finite() || !b.is_finite() {
        return false;
    }
    (a - b).abs() <= rel * a.abs().max(b.abs()).max(floor)
}

impl Ctx {
    pub fn new(prop: &str) -> Ctx {
        Ctx { by_kind: HashMap::new(), global: HashMap::new(), prop: prop.to_string(), stats: Stats::default(), violations: vec![], vio_total: 0, distinct: HashSet::new(), max_vio: 40 }
    }

    fn violate(&mut self, line_no: u64, unit: &Unit, step: usize, live: Option<&Live>, clause: &str, detail: Value) {
        self.vio_total += 1;
        if self.violations.len() < self.max_vio {
            let (kind, per, m, t) = match live {
                Some(l) => (l.cfg.kind.clone(), l.cfg.per.clone(), l.cfg.m, l.t),
                None => ("".into(), vec![], 0.0, 0),
            };
            self.violations.push(json!({
                "property": self.prop, "clause": clause, "line": line_no, "step": step,
                "kind": kind, "per": per, "mult": m, "t": t,
                "unit": {"a": unit.a, "b": unit.b, "av": unit.av, "big": unit.big, "nz": unit.nz},
                "detail": detail
            }));
        }
    }
}

pub fn has(prop: &str, what: &str) -> bool {
    // which families of comparison a property's check enables
    match what {
        "value" => matches!(prop, "C01" | "C02" | "C03" | "C04" | "C05" | "C06" | "C13"),
        "det_bits" => matches!(prop, "C05"),
        "det_rel" => matches!(prop, "C04" | "C06"),
        "eff_rel" => matches!(prop, "C10"),
        "range" => matches!(prop, "C07"),
        "deg" => matches!(prop, "C08"),
        "ord" => matches!(prop, "C09"),
        "returns" => matches!(prop, "C12"),
        "size" => matches!(prop, "C18"),
        "params" => matches!(prop, "C04" | "C06" | "C11"),
        _ => false,
    }
}

fn scale_of(kind: &str) -> f64 {
    match kind {
        "ER" => 1.0,
        "CCI" => 1.0 / 0.015,
        _ => 100.0,
    }
}

/// image of a lattice rational under the unit, by dimension
fn image(unit: &Unit, r: (i64, i64), dim: &str) -> f64 {
    let rf = r.0 as f64 / r.1 as f64;
    match dim {
        "level" => {
            if r.1 == 1 {
                unit.price(r.0)
            } else {
                unit.a * rf + unit.b
            }
        }
        "spread" => unit.a * rf,
        "var" => unit.a * unit.a * rf,
        "vol" => unit.av * rf,
        _ => rf,
    }
}

#[derive(Clone, Debug)]
pub struct RecStep {
    pub idx: usize,
    pub inst: i64,
    pub kind: String,
    pub mult: f64,
    pub got: Vec<f64>,
    pub raw: Vec<f64>,
    pub c: f64,
    pub mag: f64,
    pub t: u64,
    pub skip: bool,
    pub dims: Vec<String>,
    pub spread: f64,
}

pub struct Run<'a> {
    pub pending_kind: Option<(String, (u64, u64))>,
    pub rec: Option<Vec<RecStep>>,
    pub unit: &'a Unit,
    pub line_no: u64,
    pub insts: HashMap<i64, Live>,
    pub blobs: HashMap<i64, (Cfg, Vec<u8>, Live)>,
    // determinism maps of this behaviour: (cfg key, history hash) -> first observed outputs
    pub strict_map: HashMap<(String, u64, u64), Vec<f64>>,
    pub eff_map: HashMap<(String, u64, u64), Vec<f64>>,
}

fn cfg_of(op: &Value) -> Cfg {
    let kind = op["kind"].as_str().unwrap().to_string();
    let n = nper(&kind);
    let per: Vec<usize> = op["per"].as_array().unwrap().iter().take(n).map(|x| x.as_u64().unwrap() as usize).collect();
    let m = rat(&op["m"]);
    let seed = rat(&op["seed"]);
    let key = format!("{}:{:?}:{}/{}:{}/{}", kind, per, m.0, m.1, seed.0, seed.1);
    let mem = op["mem"].as_u64().unwrap_or(0) as usize;
    Cfg { kind, per, m: m.0 as f64 / m.1 as f64, seed: seed.0 as f64 / seed.1 as f64, key, mem }
}

/// Units legal for a behaviour: shifts only for shift-covariant kinds; RSI pinned by its seed.
pub fn unit_ok(line: &Value, unit: &Unit) -> Option<Unit> {
    let mut u = *unit;
    for op in line["ops"].as_array().unwrap() {
        if op["op"] == "new" {
            let kind = op["kind"].as_str().unwrap();
            if unit.b != 0.0 && !shift_ok(kind) {
                return None;
            }
            if kind == "RSI" {
                // the fixed 0.1 seed pins the price unit: lattice seed s means a = 0.1 / s
                let s = rat(&op["seed"]);
                let a = 0.1 * (s.1 as f64) / (s.0 as f64);
                if unit.b != 0.0 {
                    return None;
                }
                // one run per behaviour is enough: use it for the first unit only
                if !(unit.a == 1.0 && unit.b == 0.0 && unit.big == 1.0e6) {
                    return None;
                }
                u.a = a;
                u.big = a * 1.0e6;
            }
        }
    }
    Some(u)
}

impl<'a> Run<'a> {
    pub fn new(unit: &'a Unit, line_no: u64) -> Run<'a> {
        Run { pending_kind: None, rec: None, unit, line_no, insts: HashMap::new(), blobs: HashMap::new(), strict_map: HashMap::new(), eff_map: HashMap::new() }
    }

    fn bar_of(&self, op: &Value, t: u64) -> (Bar, [i64; 5]) {
        let g = |k: &str| op[k].as_i64().unwrap();
        let ks = [g("o"), g("h"), g("l"), g("c"), g("v")];
        let u = self.unit;
        (Bar { o: u.price_at(ks[0], t), h: u.price_at(ks[1], t), l: u.price_at(ks[2], t), c: u.price_at(ks[3], t), v: u.volume(ks[4]) }, ks)
    }

    /// Execute one behaviour; `obs[k]` belongs to `ops[from + k]`.
    pub fn exec(&mut self, ctx: &mut Ctx, line: &Value) {
        let ops = line["ops"].as_array().unwrap();
        let obs = line["obs"].as_array().unwrap();
        let from = line["from"].as_u64().unwrap_or(0) as usize;
        ctx.stats.behaviours += 1;
        for (idx, op) in ops.iter().enumerate() {
            ctx.stats.ops += 1;
            let ob = if idx >= from { obs.get(idx - from) } else { None };
            let name = op["op"].as_str().unwrap();
            match name {
                "new" => {
                    let cfg = cfg_of(op);
                    let i = op["i"].as_i64().unwrap();
                    let dflt = op["dflt"].as_bool().unwrap_or(false);
                    let r = catch_unwind(AssertUnwindSafe(|| {
                        if dflt {
                            Ind::default_of(&cfg.kind).ok_or("no Default".to_string())
                        } else {
                            Ind::new(&cfg.kind, &cfg.per, cfg.m)
                        }
                    }));
                    match r {
                        Ok(Ok(ind)) => {
                            let l = Live { ind, t: 0, mag: 0.0, strict: 0, eff: 0, cmax: 1.0, tainted: false, dead: false, len0: None, last: vec![], last_in: 0.0, shadow: None, inputs: vec![], mem: cfg.mem,
                                pmin: f64::INFINITY, pmax: f64::NEG_INFINITY, heap: 0,
                                parts: if ctx.prop == "C15" { Parts::new(&cfg) } else { None },
                                pair: if ctx.prop == "C09" && cfg.kind == "MIN" { Ind::new("MAX", &cfg.per, 1.0).ok() } else { None }, cfg };
                            self.insts.insert(i, l);
                        }
                        Ok(Err(e)) => ctx.violate(self.line_no, self.unit, idx, None, "ctor-rejected-valid", json!({"cfg": cfg.key, "err": e})),
                        Err(_) => {
                            ctx.stats.panics += 1;
                            ctx.violate(self.line_no, self.unit, idx, None, "ctor-panic", json!({"cfg": cfg.key}))
                        }
                    }
                }
                "s" | "b" | "tok" | "tokb" => self.feed(ctx, idx, op, ob),
                "reset" => {
                    let i = op["i"].as_i64().unwrap();
                    let prop = ctx.prop.clone();
                    if let Some(l) = self.insts.get_mut(&i) {
                        if l.dead {
                            continue;
                        }
                        let before = (l.ind.display(), l.ind.period(), l.ind.multiplier().map(|m| m.to_bits()));
                        let r = catch_unwind(AssertUnwindSafe(|| l.ind.reset()));
                        if r.is_err() {
                            l.dead = true;
                            ctx.stats.panics += 1;
                            let lc = l.clone();
                            ctx.violate(self.line_no, self.unit, idx, Some(&lc), "reset-panic", json!({}));
                            continue;
                        }
                        l.t = 0;
                        l.mag = 0.0;
                        l.pmin = f64::INFINITY;
                        l.pmax = f64::NEG_INFINITY;
                        l.strict = 0;
                        l.eff = 0;
                        l.cmax = 1.0;
                        l.tainted = false;
                        l.len0 = None;
                        l.last.clear();
                        l.inputs.clear();
                        l.heap = 0;
                        if let Some(p) = l.parts.as_mut() {
                            p.reset();
                        }
                        if let Some(p) = l.pair.as_mut() {
                            p.reset();
                        }
                        if prop == "C04" {
                            let (k, p, m) = (l.cfg.kind.clone(), l.cfg.per.clone(), l.cfg.m);
                            l.shadow = catch_unwind(AssertUnwindSafe(|| Ind::new(&k, &p, m).ok())).ok().flatten();
                        }
                        if has(&prop, "params") {
                            let after = (l.ind.display(), l.ind.period(), l.ind.multiplier().map(|m| m.to_bits()));
                            if before != after {
                                let lc = l.clone();
                                ctx.violate(self.line_no, self.unit, idx, Some(&lc), "params-changed-by-reset", json!({"before": format!("{:?}", before), "after": format!("{:?}", after)}));
                            }
                        }
                        if has(&prop, "returns") {
                            self.returns_suite(ctx, idx, i);
                        }
                    }
                }
                "clone" => {
                    let (i, j) = (op["i"].as_i64().unwrap(), op["j"].as_i64().unwrap());
                    if let Some(l) = self.insts.get(&i) {
                        if l.dead {
                            continue;
                        }
                        let r = catch_unwind(AssertUnwindSafe(|| l.clone()));
                        match r {
                            Ok(c) => {
                                self.insts.insert(j, c);
                            }
                            Err(_) => {
                                ctx.stats.panics += 1;
                                let lc = l.clone();
                                ctx.violate(self.line_no, self.unit, idx, Some(&lc), "clone-panic", json!({}));
                            }
                        }
                    }
                }
                "cloneinto" => {
                    // j.clone_from(&i): the destination keeps its allocation and must end up indistinguishable from a clone
                    let (i, j) = (op["i"].as_i64().unwrap(), op["j"].as_i64().unwrap());
                    let src = match self.insts.get(&i) {
                        Some(l) if !l.dead => l.clone(),
                        _ => continue,
                    };
                    if let Some(mut dst) = self.insts.remove(&j) {
                        let r = catch_unwind(AssertUnwindSafe(|| dst.ind.clone_from_ind(&src.ind)));
                        match r {
                            Ok(true) => {
                                let mut l = src.clone();
                                std::mem::swap(&mut l.ind, &mut dst.ind);
                                self.insts.insert(j, l);
                            }
                            Ok(false) => {}
                            Err(_) => {
                                ctx.stats.panics += 1;
                                ctx.violate(self.line_no, self.unit, idx, Some(&src), "clone-from-panic", json!({}));
                            }
                        }
                    }
                }
                "save" => {
                    let (i, s) = (op["i"].as_i64().unwrap(), op["s"].as_i64().unwrap());
                    if let Some(l) = self.insts.get(&i) {
                        if l.dead {
                            continue;
                        }
                        let r = catch_unwind(AssertUnwindSafe(|| l.ind.save()));
                        match r {
                            Ok(Ok(bytes)) => {
                                if let Some(o) = ob {
                                    if let Some(bound) = o["bound"].as_u64() {
                                        ctx.stats.size_checked += 1;
                                        if bytes.len() as u64 > bound {
                                            let lc = l.clone();
                                            ctx.violate(self.line_no, self.unit, idx, Some(&lc), "serialized-size-over-bound", json!({"len": bytes.len(), "bound": bound}));
                                        }
                                    }
                                }
                                self.blobs.insert(s, (l.cfg.clone(), bytes, l.clone()));
                            }
                            Ok(Err(e)) => {
                                let lc = l.clone();
                                ctx.violate(self.line_no, self.unit, idx, Some(&lc), "serialize-error", json!({"err": e}));
                            }
                            Err(_) => {
                                ctx.stats.panics += 1;
                                let lc = l.clone();
                                ctx.violate(self.line_no, self.unit, idx, Some(&lc), "serialize-panic", json!({}));
                            }
                        }
                    }
                }
                "restore" => {
                    let (s, j) = (op["s"].as_i64().unwrap(), op["j"].as_i64().unwrap());
                    if let Some((cfg, bytes, meta)) = self.blobs.get(&s) {
                        let r = catch_unwind(AssertUnwindSafe(|| Ind::restore(&cfg.kind, bytes)));
                        match r {
                            Ok(Ok(ind)) => {
                                let mut l = meta.clone();
                                if has(&ctx.prop, "params") {
                                    let a = (l.ind.display(), l.ind.period(), l.ind.multiplier().map(|m| m.to_bits()));
                                    let b = (ind.display(), ind.period(), ind.multiplier().map(|m| m.to_bits()));
                                    if a != b {
                                        ctx.violate(self.line_no, self.unit, idx, Some(&l), "params-changed-by-roundtrip", json!({"before": format!("{:?}", a), "after": format!("{:?}", b)}));
                                    }
                                }
                                l.ind = ind;
                                self.insts.insert(j, l);
                            }
                            Ok(Err(e)) => {
                                let lc = meta.clone();
                                ctx.violate(self.line_no, self.unit, idx, Some(&lc), "deserialize-error", json!({"err": e}));
                            }
                            Err(_) => {
                                ctx.stats.panics += 1;
                                let lc = meta.clone();
                                ctx.violate(self.line_no, self.unit, idx, Some(&lc), "deserialize-panic", json!({}));
                            }
                        }
                    }
                }
                "drop" => {
                    self.insts.remove(&op["i"].as_i64().unwrap());
                }
                _ => {}
            }
        }
    }

    /// C12: every other public operation must also return normally in the current state.
    fn returns_suite(&mut self, ctx: &mut Ctx, idx: usize, i: i64) {
        let l = match self.insts.get(&i) {
            Some(l) => l.clone(),
            None => return,
        };
        let checks: Vec<(&str, Box<dyn Fn(&Live) -> bool>)> = vec![
            ("clone", Box::new(|l: &Live| { let _c = l.ind.clone(); true })),
            // the same calls on copies, while the original (and a second copy) are alive: sharing between copies must not show
            ("clone-then-reset", Box::new(|l: &Live| { let a = l.ind.clone(); let mut b = a.clone(); b.reset(); let mut c = l.ind.clone(); c.reset(); drop(a); true })),
            ("clone-then-next", Box::new(|l: &Live| {
                let mut c = l.ind.clone();
                let keep = c.clone();
                if Ind::has_scalar(&l.cfg.kind) { c.next_s(1.5); } else { c.next_b(&Bar::one(1.5)); }
                drop(keep);
                true
            })),
            ("display", Box::new(|l: &Live| !l.ind.display().is_empty())),
            ("debug", Box::new(|l: &Live| !l.ind.debug().is_empty())),
            ("bincode", Box::new(|l: &Live| match l.ind.save() { Ok(b) => Ind::restore(&l.cfg.kind, &b).is_ok(), Err(_) => false })),
            // serde_json cannot represent non-finite numbers as numbers but must not panic
            ("json", Box::new(|l: &Live| { let _ = l.ind.to_json(); true })),
        ];
        for (name, f) in checks {
            ctx.stats.returns_checked += 1;
            let r = catch_unwind(AssertUnwindSafe(|| f(&l)));
            match r {
                Ok(true) => {}
                Ok(false) => ctx.violate(self.line_no, self.unit, idx, Some(&l), &format!("{}-failed", name), json!({})),
                Err(_) => {
                    ctx.stats.panics += 1;
                    ctx.violate(self.line_no, self.unit, idx, Some(&l), &format!("{}-panic", name), json!({}))
                }
            }
        }
    }

    pub fn feed(&mut self, ctx: &mut Ctx, idx: usize, op: &Value, ob: Option<&Value>) {
        self.feed_inner(ctx, idx, op, ob);
        if let Some((k, before)) = self.pending_kind.take() {
            let after = (ctx.stats.fields_compared, ctx.stats.det_compared + ctx.stats.eff_compared + ctx.stats.range_checked + ctx.stats.deg_checked
                + ctx.stats.ord_checked + ctx.stats.wired_compared + ctx.stats.returns_checked + ctx.stats.heap_checked + ctx.stats.markov_checked);
            let e = ctx.by_kind.entry(k).or_insert([0, 0, 0]);
            e[0] += 1;
            e[1] += after.0 - before.0;
            e[2] += after.1 - before.1;
        }
    }

    fn feed_inner(&mut self, ctx: &mut Ctx, idx: usize, op: &Value, ob: Option<&Value>) {
        let i = op["i"].as_i64().unwrap();
        let name = op["op"].as_str().unwrap();
        let prop = ctx.prop.clone();
        let unit = *self.unit;
        let mut l = match self.insts.remove(&i) {
            Some(l) => l,
            None => return,
        };
        if l.dead {
            self.insts.insert(i, l);
            return;
        }
        // ---- build the real input
        let mut lits: Vec<i64> = vec![];
        let raw: Result<Option<Vec<f64>>, ()>;
        let mut di_raw: Option<Vec<f64>> = None;
        let mut inmag: f64 = 0.0;
        let mut heap_delta: i64 = 0;
        let inrec: InRec;
        let fp0 = crate::fpenv::control();
        match name {
            "s" => {
                let k = op["x"].as_i64().unwrap();
                lits.push(k);
                let x = unit.price_at(k, l.t);
                inmag = x.abs();
                inrec = InRec::S(x);
                let h0 = crate::alloc::live();
                raw = catch_unwind(AssertUnwindSafe(|| l.ind.next_s(x))).map_err(|_| ());
                heap_delta = crate::alloc::live() - h0;
            }
            "b" => {
                let (bar, ks) = self.bar_of(op, l.t);
                lits.extend_from_slice(&ks);
                lits.push(-7);
                inmag = bar.h.abs().max(bar.l.abs()).max(bar.c.abs());
                inrec = InRec::B(bar);
                if has(&prop, "eff_rel") {
                    // DataItem must behave exactly like any other implementor carrying the same numbers
                    if let Some(di) = bar.data_item() {
                        let mut c = l.ind.clone();
                        di_raw = catch_unwind(AssertUnwindSafe(|| c.next_b(&di))).ok();
                    }
                }
                let h0 = crate::alloc::live();
                raw = catch_unwind(AssertUnwindSafe(|| Some(l.ind.next_b(&bar)))).map_err(|_| ());
                heap_delta = crate::alloc::live() - h0;
            }
            _ => {
                let ts = op["x"].as_str().unwrap();
                let x = tok_val(ts);
                lits.push(x.to_bits() as i64);
                lits.push(-9);
                l.tainted = true;
                let scalar = Ind::has_scalar(&l.cfg.kind) && name != "tokb";
                let mut bar = Bar::one(x);
                if matches!(l.cfg.kind.as_str(), "MFI" | "OBV") {
                    bar.v = x; // the kinds that read volume get the value there too (DataItem accepts an infinite volume)
                }
                inrec = if scalar { InRec::S(x) } else { InRec::B(bar) };
                raw = if scalar {
                    catch_unwind(AssertUnwindSafe(|| l.ind.next_s(x))).map_err(|_| ())
                } else {
                    catch_unwind(AssertUnwindSafe(|| Some(l.ind.next_b(&bar)))).map_err(|_| ())
                };
            }
        }
        l.t += 1;
        let fp1 = crate::fpenv::control();
        if fp1 != fp0 {
            // put it back (so that one report is made per offending call, not one per later comparison)
            crate::fpenv::restore(fp0);
            if prop == "C05" {
                let lc = l.clone();
                ctx.violate(self.line_no, &unit, idx, Some(&lc), "call-changed-thread-floating-point-environment", json!({"mxcsr_control_before": fp0, "after": fp1}));
            }
        }
        if inmag.is_finite() {
            l.mag = l.mag.max(inmag);
            match inrec {
                InRec::S(x) => {
                    l.pmin = l.pmin.min(x);
                    l.pmax = l.pmax.max(x);
                }
                InRec::B(b) => {
                    l.pmin = l.pmin.min(b.l).min(b.c).min(b.h);
                    l.pmax = l.pmax.max(b.l).max(b.c).max(b.h);
                }
            }
        }
        l.strict = h2(l.strict, &lits, 1);
        ctx.stats.steps += 1;
        let before = (ctx.stats.fields_compared, ctx.stats.det_compared + ctx.stats.eff_compared + ctx.stats.range_checked + ctx.stats.deg_checked
            + ctx.stats.ord_checked + ctx.stats.wired_compared + ctx.stats.returns_checked + ctx.stats.heap_checked + ctx.stats.markov_checked);
        let kind_name = l.cfg.kind.clone();
        self.pending_kind = Some((kind_name, before));
        let raw = match raw {
            Ok(Some(r)) => r,
            Ok(None) => {
                ctx.violate(self.line_no, &unit, idx, Some(&l), "no-scalar-path", json!({}));
                self.insts.insert(i, l);
                return;
            }
            Err(()) => {
                ctx.stats.panics += 1;
                l.dead = true;
                ctx.violate(self.line_no, &unit, idx, Some(&l), "next-panic", json!({"input": op}));
                self.insts.insert(i, l);
                return;
            }
        };
        let got = observe(&l.cfg.kind, &raw);
        // the output's other documented access route: `into()` a tuple, in the order the specification lists the fields
        if crate::adapter::TUPLE_MISMATCH.with(|c| c.replace(false)) && matches!(prop.as_str(), "C02" | "C03" | "C15") {
            ctx.violate(self.line_no, &unit, idx, Some(&l), "tuple-conversion-differs-from-fields", json!({"fields": raw}));
        }
        // ---- C18: net heap growth inside next() (the returned Vec of outputs is the adapter's, not the indicator's)
        if prop == "C18" {
            l.heap += heap_delta - (raw.capacity() * 8) as i64;
            ctx.stats.heap_checked += 1;
            ctx.stats.max_heap_growth = ctx.stats.max_heap_growth.max(l.heap);
            let bound = (256 + 64 * l.cfg.per.iter().sum::<usize>()) as i64;
            if l.heap > bound {
                let lc = l.clone();
                ctx.violate(self.line_no, &unit, idx, Some(&lc), "heap-grows-with-stream-length", json!({"net_growth_bytes": l.heap, "bound": bound}));
                l.heap = i64::MIN / 2; // report once per instance
            }
        }
        // ---- C15: the composite must agree with its public parts wired by hand
        if l.parts.is_some() && !l.tainted {
            let wired = catch_unwind(AssertUnwindSafe(|| l.parts.as_mut().unwrap().step(&inrec))).ok();
            if let (Some(w), Some(o)) = (wired, ob) {
                let t = l.t;
                let mfac = 1.0 + l.cfg.m.abs();
                let fl = o["f"].as_array().cloned().unwrap_or_default();
                // conditioning as in the value check
                let den = rat(&o["den"]);
                let dend = o["dend"].as_str().unwrap_or("ratio");
                let mut c = 1.0f64;
                if den.1 != 0 {
                    if dend == "invc" {
                        let d = den.0 as f64 / den.1 as f64;
                        c = if d > 0.0 { 1.0 / d } else { f64::INFINITY };
                    } else {
                        let d = image(&unit, den, dend).abs();
                        c = if d > 0.0 { l.mag / d } else { f64::INFINITY };
                    }
                } else if den.0 == 0 {
                    c = f64::INFINITY;
                }
                c = c.max(1.0).max(l.cmax);
                for (k, f) in fl.iter().enumerate() {
                    if k >= w.len() {
                        break;
                    }
                    let cls = f["cls"].as_str().unwrap_or("none");
                    let (a, b) = (got[k], w[k]);
                    let (err, tol) = match cls {
                        "exact" => (if num_eq(a, b) { 0.0 } else { f64::INFINITY }, 0.0),
                        "tau" => ((a - b).abs(), tau(t) * l.mag * (if f["k"] == "average" { 1.0 } else { mfac }) * 1.001),   // the middle band carries no multiplier
                        "tauvar" => ((a.signum() * a * a - b.signum() * b * b).abs(), tau(t) * l.mag * l.mag * (l.cfg.m * l.cfg.m).max(1.0) * 1.001),
                        // the documented combination has a branch of its own for a zero deviation ("0 when MAD is 0"): when the public
                        // MeanAbsoluteDeviation reports exactly 0 the hand-wired result is exactly 0, and so must the composite be
                        "neutral" if b == 0.0 && !(o["ts"].as_bool().unwrap_or(false) && !(unit.b == 0.0 && (unit.a.to_bits() & ((1u64 << 52) - 1)) == 0)) => {
                            (if a == 0.0 { 0.0 } else { f64::INFINITY }, 0.0)
                        }
                        _ => {
                            if !(c <= 1e6) || unit.warped() {
                                if num_eq(a, b) { (0.0, 0.0) } else { ctx.stats.skipped_ill += 1; continue; }
                            } else {
                                ((a - b).abs(), tau(t) * c * scale_of(&l.cfg.kind) * 1.001)
                            }
                        }
                    };
                    ctx.stats.wired_compared += 1;
                    if !(err <= tol) && !num_eq(a, b) {
                        let lc = l.clone();
                        ctx.violate(self.line_no, &unit, idx, Some(&lc), "composite-differs-from-hand-wired-parts", json!({"field": f["k"], "composite": a, "wired": b, "tol": tol, "cond": c}));
                    }
                }
            }
        }
        // ---- C04: after reset() the instance must be indistinguishable from a freshly constructed one
        if let Some(sh) = l.shadow.as_mut() {
            let r = catch_unwind(AssertUnwindSafe(|| match inrec {
                InRec::S(x) => sh.next_s(x).unwrap(),
                InRec::B(b) => sh.next_b(&b),
            }));
            match r {
                Ok(fresh) => {
                    ctx.stats.det_compared += 1;
                    if fresh.len() != raw.len() || !fresh.iter().zip(raw.iter()).all(|(a, b)| rel_close(*a, *b, 1e-12, 0.0)) {
                        let lc = l.clone();
                        ctx.violate(self.line_no, &unit, idx, Some(&lc), "reset-differs-from-fresh", json!({"fresh": fresh, "after_reset": raw, "input": op}));
                    }
                }
                Err(_) => {
                    l.shadow = None;
                }
            }
        }
        if prop == "C17" {
            l.inputs.push(inrec);
        }
        if let (Some(p), InRec::S(x)) = (l.pair.as_mut(), inrec) {
            if !l.tainted {
                if let Some(mx) = p.next_s(x) {
                    ctx.stats.ord_checked += 1;
                    if !(raw[0] <= mx[0]) {
                        let lc = l.clone();
                        ctx.violate(self.line_no, &unit, idx, Some(&lc), "minimum-above-maximum", json!({"min": raw[0], "max": mx[0]}));
                    }
                }
            }
        }
        // ---- C02, long recursions: the whole memory of an EMA is its last output (spec lemma: the reference
        //      state of EMA is that one rational), so a fresh EMA fed [previous output, x_t] must return out_t
        if prop == "C02" && l.cfg.kind == "EMA" && name == "s" && !l.tainted && l.last.len() == 1 && l.t >= 2 {
            let x = unit.price(op["x"].as_i64().unwrap());
            let prev = l.last[0];
            let per = l.cfg.per.clone();
            let r = catch_unwind(AssertUnwindSafe(|| {
                let mut f = Ind::new("EMA", &per, 1.0).unwrap();
                f.next_s(prev);
                f.next_s(x).unwrap()[0]
            }));
            ctx.stats.markov_checked += 1;
            match r {
                Ok(y) => {
                    if !rel_close(y, raw[0], 1e-12, l.mag) {
                        ctx.violate(self.line_no, &unit, idx, Some(&l), "ema-restart-differs", json!({"restarted": y, "running": raw[0], "prev_out": prev, "x": x}));
                    }
                }
                Err(_) => ctx.violate(self.line_no, &unit, idx, Some(&l), "ema-restart-panic", json!({})),
            }
        }
        // ---- C03, long flat runs: an unchanged price scales both averages of RSI by the same factor, so the ratio does not move
        //      (spec lemma RsiFlat; the bounded rationals cannot follow (1 - k)^t for long). Demanded while both averages are
        //      certainly normal numbers: each is at least the decayed seed 0.1 * ((n-1)/(n+1))^t.
        if prop == "C03" && l.cfg.kind == "RSI" && !l.tainted && l.last.len() == 1 && l.t >= 2 && l.cfg.per[0] >= 2 {
            let cur = match inrec {
                InRec::S(x) => x,
                InRec::B(b) => b.c,
            };
            let n = l.cfg.per[0] as f64;
            let t_normal = 280.0 * std::f64::consts::LN_10 / -((n - 1.0) / (n + 1.0)).ln();
            if cur.to_bits() == l.last_in.to_bits() && (l.t as f64) <= t_normal && l.last[0].is_finite() {
                ctx.stats.markov_checked += 1;
                if !((raw[0] - l.last[0]).abs() <= tau(l.t) * 100.0 * 1.001) {
                    ctx.violate(self.line_no, &unit, idx, Some(&l), "rsi-moves-on-unchanged-price", json!({"previous": l.last[0], "now": raw[0], "price": cur}));
                }
            }
        }
        l.last_in = match inrec {
            InRec::S(x) => x,
            InRec::B(b) => b.c,
        };
        l.last = raw.clone();
        // ---- C13: the variance never becomes negative or NaN, at any step of a long stream
        if prop == "C13" && matches!(l.cfg.kind.as_str(), "SD" | "BB") && !l.tainted {
            let bad = if l.cfg.kind == "SD" { !(raw[0] >= 0.0) } else { raw.iter().any(|g| g.is_nan()) };
            if bad {
                let lc = l.clone();
                ctx.violate(self.line_no, &unit, idx, Some(&lc), "variance-negative-or-nan", json!({"raw": format!("{:?}", raw)}));
            }
        }
        if let Some(d) = &di_raw {
            ctx.stats.eff_compared += 1;
            if d.len() != raw.len() || d.iter().zip(raw.iter()).any(|(a, b)| !same_bits(*a, *b)) {
                ctx.violate(self.line_no, &unit, idx, Some(&l), "dataitem-differs-from-user-bar", json!({"bar": raw, "dataitem": d}));
            }
        }
        if has(&prop, "returns") {
            self.insts.insert(i, l);
            self.returns_suite(ctx, idx, i);
            l = self.insts.remove(&i).unwrap();
        }
        let o = match ob {
            Some(o) => o,
            None => {
                self.insts.insert(i, l);
                return;
            }
        };
        if let Some(e) = o["e"].as_array() {
            let ev: Vec<i64> = e.iter().map(|x| x.as_i64().unwrap()).collect();
            l.eff = h2(l.eff, &ev, 2);
        }
        // distinct non-trivial cases: (kind, periods, literal input history since reset) of every step that carries an expectation
        if ctx.distinct.len() < 4_000_000 {
            let mut hk = DefaultHasher::new();
            l.cfg.key.hash(&mut hk);
            ctx.distinct.insert(h2(l.strict ^ hk.finish(), &[l.t as i64], 7));
        }
        if let Some(t) = o["t"].as_u64() {
            if t != l.t {
                ctx.violate(self.line_no, &unit, idx, Some(&l), "harness-step-count-mismatch", json!({"spec_t": t}));
            }
        }
        // ---- C18: serialized size under the bound that the parameters alone determine. (The size is exactly constant after the
        //      first input today, but the property does not promise that: a window kept in a VecDeque legitimately grows while
        //      warming up. A leak is caught by running long enough past every trigger for it to cross the bound.)
        if has(&prop, "size") && (l.t <= 600 || l.t % 97 == 0) {
            if let Ok(b) = l.ind.save() {
                ctx.stats.size_checked += 1;
                let bound = 256 + 64 * l.cfg.per.iter().sum::<usize>();
                if b.len() > bound {
                    ctx.violate(self.line_no, &unit, idx, Some(&l), "serialized-size-over-bound", json!({"len": b.len(), "bound": bound}));
                }
                l.len0 = Some(l.len0.map_or(b.len(), |m| m.max(b.len())));
            }
        }
        // ---- determinism maps (licensed by the specification: the reference state is a function
        //      of configuration + effective inputs since reset)
        if has(&prop, "det_bits") || has(&prop, "det_rel") {
            let key = (l.cfg.key.clone(), l.strict, l.t);
            match self.strict_map.get(&key) {
                None => {
                    self.strict_map.insert(key, got.clone());
                }
                Some(first) => {
                    ctx.stats.det_compared += 1;
                    let ok = if has(&prop, "det_bits") {
                        first.iter().zip(got.iter()).all(|(a, b)| same_bits(*a, *b))
                    } else {
                        first.iter().zip(got.iter()).all(|(a, b)| rel_close(*a, *b, 1e-12, 0.0))
                    };
                    if !ok {
                        let clause = if has(&prop, "det_bits") { "same-history-different-bits" } else { "same-history-different-output" };
                        ctx.violate(self.line_no, &unit, idx, Some(&l), clause, json!({"first": first, "now": got}));
                    }
                }
            }
        }
        if has(&prop, "det_bits") {
            let mut h = DefaultHasher::new();
            l.cfg.key.hash(&mut h);
            (unit.a.to_bits(), unit.b.to_bits(), unit.av.to_bits(), unit.big.to_bits(), unit.nz).hash(&mut h);
            let ck = h.finish();
            let mut h2_ = DefaultHasher::new();
            for g in raw.iter() {
                (if g.is_nan() { f64::NAN.to_bits() } else { g.to_bits() }).hash(&mut h2_);
            }
            let oh = h2_.finish();
            let key = (ck, l.strict, l.t);
            match ctx.global.get(&key) {
                None => {
                    if ctx.global.len() < 4_000_000 {
                        ctx.global.insert(key, (oh, self.line_no));
                    }
                }
                Some((first, line0)) => {
                    ctx.stats.det_compared += 1;
                    if *first != oh {
                        let l0 = *line0;
                        ctx.violate(self.line_no, &unit, idx, Some(&l), "same-history-different-bits-across-behaviours", json!({"other_line": l0, "now": raw}));
                    }
                }
            }
        }
        if has(&prop, "eff_rel") && !l.tainted {
            let key = (l.cfg.key.clone(), l.eff, l.t);
            match self.eff_map.get(&key) {
                None => {
                    self.eff_map.insert(key, got.clone());
                }
                Some(first) => {
                    ctx.stats.eff_compared += 1;
                    if !first.iter().zip(got.iter()).all(|(a, b)| rel_close(*a, *b, 1e-12, l.mag)) {
                        ctx.violate(self.line_no, &unit, idx, Some(&l), "same-documented-fields-different-output", json!({"first": first, "now": got, "input": op}));
                    }
                }
            }
        }
        if o["taint"].as_bool().unwrap_or(false) || l.tainted {
            ctx.stats.skipped_tainted += 1;
            self.insts.insert(i, l);
            return;
        }
        // ---- conditioning of this step
        let den = rat(&o["den"]);
        let dend = o["dend"].as_str().unwrap_or("ratio");
        let den_undef = den.1 == 0 && den.0 == 1;
        let den_ovf = den.1 == 0 && den.0 == 0;
        let mut c = 1.0f64;
        if den.1 != 0 {
            if dend == "invc" {
                let d = den.0 as f64 / den.1 as f64;
                c = if d > 0.0 { 1.0 / d } else { f64::INFINITY };
            } else {
                let d = image(&unit, den, dend).abs();
                c = if d > 0.0 { l.mag / d } else { f64::INFINITY };
            }
        } else if den_ovf {
            c = f64::INFINITY;
        }
        c = c.max(1.0);
        if matches!(l.cfg.kind.as_str(), "SLOW_STOCH" | "PPO") {
            l.cmax = l.cmax.max(c);
            c = l.cmax;
        }
        let t = l.t;
        let mfac = 1.0 + l.cfg.m.abs();
        let fields = o["f"].as_array().cloned().unwrap_or_default();
        // a tie between derived values is only preserved by an exact change of unit
        let exact_unit = unit.b == 0.0 && unit.a > 0.0 && (unit.a.to_bits() & ((1u64 << 52) - 1)) == 0 && !unit.warped();
        let tie_skip = o["ts"].as_bool().unwrap_or(false) && !exact_unit;
        if unit.warped() {
            // a warped unit carries no exact values: conditioning derived from them is unknown
            c = f64::INFINITY;
        }
        if tie_skip {
            ctx.stats.skipped_tie += 1;
        }
        if let Some(rec) = self.rec.as_mut() {
            rec.push(RecStep { idx, inst: i, kind: l.cfg.kind.clone(), mult: l.cfg.m, got: got.clone(), raw: raw.clone(), c, mag: l.mag, t, skip: tie_skip, spread: (l.pmax - l.pmin).max(0.0),
                dims: fields.iter().map(|f| f["dim"].as_str().unwrap_or("ratio").to_string()).collect() });
        }
        // ---- value comparison against the exact reference
        if has(&prop, "value") && !tie_skip && !unit.warped() {
            for (k, f) in fields.iter().enumerate() {
                let r = rat(&f["r"]);
                let cls = f["cls"].as_str().unwrap_or("none");
                let dim = f["dim"].as_str().unwrap_or("ratio");
                if r.1 == 0 {
                    if r.0 == 0 {
                        ctx.stats.skipped_ovf += 1;
                    } else {
                        ctx.stats.skipped_undef += 1;
                    }
                    continue;
                }
                // "first output 1" of EfficiencyRatio is the first price measured against the zero the window starts from: undefined
                // at price 0 -- which the specification says on the lattice (input 0), and which a shifted unit can also produce
                // from a non-zero lattice value (a*k + b = 0)
                if l.cfg.kind == "ER" && l.t == 1 && l.last_in == 0.0 {
                    ctx.stats.skipped_undef += 1;
                    continue;
                }
                let g = got[k];
                let exp = image(&unit, r, dim);
                let (err, tol, what) = match cls {
                    "exact" => (if num_eq(g, exp) { 0.0 } else { f64::INFINITY }, 0.0, "exact"),
                    "tau" => {
                        let scale = if dim == "vol" { unit.av * (rat(&o["hi"]).0 as f64) } else { l.mag * (if f["k"] == "average" { 1.0 } else { mfac }) };
                        ((g - exp).abs(), tau(t) * scale * 1.001, "tau")
                    }
                    "tauvar" => {
                        let gs = g.signum() * g * g;
                        ((gs - exp).abs(), tau(t) * l.mag * l.mag * (l.cfg.m * l.cfg.m).max(1.0) * 1.001, "tauvar")
                    }
                    "cond" => {
                        if !(c <= 1e6) {
                            ctx.stats.skipped_ill += 1;
                            continue;
                        }
                        ((g - exp).abs(), tau(t) * c * scale_of(&l.cfg.kind) * 1.001, "cond")
                    }
                    _ => continue,
                };
                ctx.stats.fields_compared += 1;
                let bad = !(err <= tol) || g.is_nan();
                if tol > 0.0 && err.is_finite() {
                    ctx.stats.max_rel_err = ctx.stats.max_rel_err.max(err / tol);
                }
                if bad {
                    ctx.violate(self.line_no, &unit, idx, Some(&l), &format!("value-{}", what),
                        json!({"field": f["k"], "expected": exp, "expected_rat": [r.0, r.1], "got": g, "err": err, "tol": tol, "cond": c, "M": l.mag}));
                }
            }
        }
        // ---- C07: documented range whenever the reference denominator is non-zero
        if has(&prop, "range") {
            if let Some(rg) = range_of(&l.cfg.kind) {
                let den_zero = den.1 != 0 && den.0 == 0;
                let applies = match l.cfg.kind.as_str() {
                    "SLOW_STOCH" => true,
                    "FAST_STOCH" => true, // 50 on a zero range is in range as well
                    _ => !den_zero && !(den_undef && fields.iter().any(|f| rat(&f["r"]) == (1, 0))),
                };
                if applies {
                    let slack = if l.cfg.kind == "MFI" {
                        if c <= 1000.0 { Some((100.0 * tau(t) * c).max(1e-9)) } else { None }
                    } else {
                        Some(1e-9)
                    };
                    if let Some(s) = slack {
                        ctx.stats.range_checked += 1;
                        let g = got[0];
                        if !(g >= rg.0 - s && g <= rg.1 + s) {
                            ctx.violate(self.line_no, &unit, idx, Some(&l), "out-of-range", json!({"got": g, "range": [rg.0, rg.1], "slack": s, "cond": c}));
                        }
                    } else {
                        ctx.stats.skipped_ill += 1;
                    }
                }
            }
        }
        // ---- C08: degenerate window => finite, in range, neutral where defined
        if has(&prop, "deg") && o["deg"].as_bool().unwrap_or(false) {
            ctx.stats.deg_checked += 1;
            for (k, g) in got.iter().enumerate() {
                if !g.is_finite() {
                    ctx.violate(self.line_no, &unit, idx, Some(&l), "degenerate-not-finite", json!({"field": k, "got": format!("{}", g)}));
                }
            }
            if let Some(rg) = range_of(&l.cfg.kind) {
                let g = got[0];
                if g.is_finite() && !(g >= rg.0 - 1e-9 && g <= rg.1 + 1e-9) {
                    ctx.violate(self.line_no, &unit, idx, Some(&l), "degenerate-out-of-range", json!({"got": g}));
                }
            }
            for (k, f) in fields.iter().enumerate() {
                let r = rat(&f["r"]);
                if r.1 == 0 {
                    continue;
                }
                let cls = f["cls"].as_str().unwrap_or("none");
                let dim = f["dim"].as_str().unwrap_or("ratio");
                let g = got[k];
                let kind = l.cfg.kind.as_str();
                if (cls == "exact" || cls == "neutral") && matches!(kind, "FAST_STOCH" | "CCI" | "ROC" | "TR") && !(tie_skip && kind == "CCI") {
                    let exp = image(&unit, r, dim);
                    if !num_eq(g, exp) {
                        ctx.violate(self.line_no, &unit, idx, Some(&l), "neutral-exact", json!({"expected": exp, "got": g}));
                    }
                } else if kind == "MAD" {
                    if !(g.abs() <= tau(t) * l.mag * 1.001) {
                        ctx.violate(self.line_no, &unit, idx, Some(&l), "neutral-mad", json!({"got": g, "tol": tau(t) * l.mag}));
                    }
                } else if kind == "SD" || (kind == "BB" && k > 0) {
                    let tol = tau(t).sqrt() * l.mag * (if kind == "BB" { l.cfg.m.abs().max(1.0) } else { 1.0 }) * 1.001;
                    if !(g.abs() <= tol) {
                        ctx.violate(self.line_no, &unit, idx, Some(&l), "neutral-sd", json!({"got": g, "tol": tol}));
                    }
                }
            }
        }
        // ---- C17: the output depends on the last Memory(kind, p) inputs only (spec: the reference state IS that window)
        if prop == "C17" && l.mem > 0 && l.inputs.len() > l.mem && !tie_skip {
            let (k, p, m) = (l.cfg.kind.clone(), l.cfg.per.clone(), l.cfg.m);
            let suffix: Vec<InRec> = l.inputs[l.inputs.len() - l.mem..].to_vec();
            let r = catch_unwind(AssertUnwindSafe(|| {
                let mut f = Ind::new(&k, &p, m).unwrap();
                let mut out = vec![];
                for x in suffix.iter() {
                    out = match x {
                        InRec::S(x) => f.next_s(*x).unwrap(),
                        InRec::B(b) => f.next_b(b),
                    };
                }
                out
            }));
            if let Ok(fr) = r {
                let fresh = observe(&l.cfg.kind, &fr);
                for (k, f) in fields.iter().enumerate() {
                    let cls = f["cls"].as_str().unwrap_or("none");
                    let (a, b) = (got[k], fresh[k]);
                    let kind = l.cfg.kind.as_str();
                    // whatever the conditioning, the two runs saw the same window: one finite and the other not is a difference
                    if a.is_finite() != b.is_finite() {
                        ctx.stats.fields_compared += 1;
                        ctx.violate(self.line_no, &unit, idx, Some(&l), "history-differs-from-bare-suffix", json!({"field": f["k"], "whole_history": format!("{}", a), "suffix_only": format!("{}", b), "note": "finite vs non-finite"}));
                        continue;
                    }
                    let (err, tol) = if matches!(kind, "MIN" | "MAX" | "FAST_STOCH") || cls == "exact" {
                        (if num_eq(a, b) { 0.0 } else { f64::INFINITY }, 0.0)
                    } else {
                        match cls {
                            "tau" => ((a - b).abs(), tau(t) * l.mag * (if f["k"] == "average" { 1.0 } else { mfac }) * 1.001),   // the middle band carries no multiplier
                            "tauvar" => ((a.signum() * a * a - b.signum() * b * b).abs(), tau(t) * l.mag * l.mag * (l.cfg.m * l.cfg.m).max(1.0) * 1.001),
                            "cond" | "neutral" => {
                                if !(c <= 1e6) {
                                    ctx.stats.skipped_ill += 1;
                                    continue;
                                }
                                ((a - b).abs(), tau(t) * c * scale_of(kind) * 1.001)
                            }
                            _ => continue,
                        }
                    };
                    ctx.stats.fields_compared += 1;
                    if !(err <= tol) || (a.is_nan() != b.is_nan()) {
                        ctx.violate(self.line_no, &unit, idx, Some(&l), "history-differs-from-bare-suffix", json!({"field": f["k"], "whole_history": a, "suffix_only": b, "tol": tol, "cond": c, "M": l.mag}));
                    }
                }
            }
        }
        // ---- C09: orderings on the real outputs
        if has(&prop, "ord") {
            self.ord_checks(ctx, idx, &l, o, &raw, t);
        }
        self.insts.insert(i, l);
    }

    fn ord_checks(&mut self, ctx: &mut Ctx, idx: usize, l: &Live, o: &Value, raw: &[f64], t: u64) {
        let unit = *self.unit;
        let kind = l.cfg.kind.as_str();
        let m = l.cfg.m;
        let slack = tau(t) * l.mag * (1.0 + m.abs()) * 1.001;
        let mut chk = |ctx: &mut Ctx, name: &str, lo: f64, hi: f64, slack: f64| {
            ctx.stats.ord_checked += 1;
            if lo <= hi {
                ctx.stats.ord_zero_slack += 1;
            }
            if !(lo <= hi + slack) {
                ctx.violate(self.line_no, &unit, idx, Some(l), &format!("order-{}", name), json!({"lo": lo, "hi": hi, "slack": slack, "raw": raw}));
            }
        };
        let lo_r = rat(&o["lo"]);
        let hi_r = rat(&o["hi"]);
        match kind {
            "SD" | "MAD" | "TR" | "ATR" => {
                ctx.stats.ord_checked += 1;
                let g = raw[0];
                if !(g >= 0.0) {
                    ctx.violate(self.line_no, &unit, idx, Some(l), "dispersion-negative-or-nan", json!({"got": format!("{}", g)}));
                }
            }
            "BB" | "KC" => {
                if m >= 0.0 {
                    let s = if kind == "BB" { 0.0 } else { 0.0 };
                    chk(ctx, "lower<=average", raw[2], raw[0], s);
                    chk(ctx, "average<=upper", raw[0], raw[1], s);
                }
                if kind == "BB" {
                    for g in raw {
                        if g.is_nan() {
                            ctx.violate(self.line_no, &unit, idx, Some(l), "band-nan", json!({"raw": format!("{:?}", raw)}));
                        }
                    }
                }
            }
            "CE" => {
                if m >= 0.0 && lo_r.1 != 0 && hi_r.1 != 0 {
                    chk(ctx, "long<=window-max", raw[0], image(&unit, hi_r, "level"), slack);
                    chk(ctx, "window-min<=short", image(&unit, lo_r, "level"), raw[1], slack);
                }
            }
            "MACD" | "PPO" => {
                ctx.stats.ord_checked += 1;
                let d = raw[0] - raw[1];
                if same_bits(d, raw[2]) || num_eq(d, raw[2]) {
                    ctx.stats.ord_zero_slack += 1;
                } else {
                    let s = if kind == "MACD" { slack } else { tau(t) * 100.0 * l.cmax.min(1e6) };
                    if !((d - raw[2]).abs() <= s) {
                        ctx.violate(self.line_no, &unit, idx, Some(l), "histogram-not-line-minus-signal", json!({"raw": raw}));
                    }
                }
            }
            "SMA" | "WMA" | "EMA" => {
                if lo_r.1 != 0 && hi_r.1 != 0 {
                    chk(ctx, "min<=mean", image(&unit, lo_r, "level"), raw[0], slack);
                    chk(ctx, "mean<=max", raw[0], image(&unit, hi_r, "level"), slack);
                }
            }
            _ => {}
        }
    }
}

pub fn range_of(kind: &str) -> Option<(f64, f64)> {
    match kind {
        "RSI" | "FAST_STOCH" | "SLOW_STOCH" | "MFI" => Some((0.0, 100.0)),
        "ER" => Some((0.0, 1.0)),
        _ => None,
    }
}

pub fn stats_json(s: &Stats) -> Value {
    json!({
        "behaviours": s.behaviours, "ops": s.ops, "steps": s.steps, "fields_compared": s.fields_compared,
        "skipped_ill_conditioned": s.skipped_ill, "skipped_undefined": s.skipped_undef, "skipped_overflow": s.skipped_ovf,
        "skipped_tainted": s.skipped_tainted, "skipped_derived_tie": s.skipped_tie, "determinism_compared": s.det_compared, "ema_restart_checked": s.markov_checked, "effective_input_compared": s.eff_compared,
        "range_checked": s.range_checked, "degenerate_checked": s.deg_checked, "order_checked": s.ord_checked,
        "order_held_with_zero_slack": s.ord_zero_slack, "returns_checked": s.returns_checked, "size_checked": s.size_checked, "heap_checked": s.heap_checked, "max_net_heap_growth_bytes": s.max_heap_growth, "wired_parts_compared": s.wired_compared,
        "panics": s.panics, "max_err_over_tol": s.max_rel_err
    })
}


/// C14: run one behaviour at a base unit and at related units (scaled by c, shifted by d) and compare the
/// outputs as their dimension (from the specification) says.
pub fn covariance(ctx: &mut Ctx, line: &Value, line_no: u64, tier: &str) {
    let kinds: Vec<String> = line["ops"].as_array().unwrap().iter().filter(|o| o["op"] == "new").map(|o| o["kind"].as_str().unwrap().to_string()).collect();
    if kinds.iter().any(|k| k == "RSI") {
        return; // excluded by the property: fixed 0.1 seed
    }
    let shiftable = kinds.iter().all(|k| shift_ok(k));
    let bases = [Unit::new(1.0, 0.0), Unit::new(0.1, 0.0), Unit::new(1.0e-4, 0.0), Unit::new(3.0, 7.0)];
    let pow2: Vec<i32> = if tier == "thorough" { (-40..=40).step_by(4).collect() } else { vec![-40, -17, -1, 1, 10, 40] };
    let arb = [3.0, 0.7, 1.0e3, 1.0 / 3.0];
    let shifts = [1.0e3, 1048576.0, 1.0e6 + 0.5];
    let record = |ctx: &mut Ctx, u: &Unit| -> Vec<RecStep> {
        let mut run = Run::new(u, line_no);
        run.rec = Some(vec![]);
        run.exec(ctx, line);
        run.rec.take().unwrap()
    };
    for base in bases.iter() {
        if base.b != 0.0 && !shiftable {
            continue;
        }
        let r0 = record(ctx, base);
        let mut tfs: Vec<(f64, f64, bool)> = vec![]; // (scale, shift in units of base.a, power of two)
        for k in pow2.iter() {
            tfs.push((2f64.powi(*k), 0.0, true));
        }
        for c in arb.iter() {
            tfs.push((*c, 0.0, false));
        }
        if shiftable {
            for d in shifts.iter() {
                tfs.push((1.0, *d, false));
            }
        }
        for (cs, d, p2) in tfs {
            let mut u1 = Unit::new(base.a * cs, base.b * cs + d * base.a);
            u1.av = base.av;
            let r1 = record(ctx, &u1);
            if r1.len() != r0.len() {
                ctx.violate(line_no, &u1, 0, None, "covariance-different-number-of-outputs", json!({"base": base.label()}));
                continue;
            }
            for (a, b) in r0.iter().zip(r1.iter()) {
                if a.skip || b.skip {
                    continue;
                }
                let mfac = 1.0 + a.mult.abs();
                let tt = a.t as f64;
                for k in 0..a.got.len().min(a.dims.len()) {
                    let dim = a.dims[k].as_str();
                    let g0 = a.got[k];
                    let g1 = b.got[k];
                    // what the base output becomes under the change of unit
                    let (mut want, scale_like) = match dim {
                        "level" => (g0 * cs + d * base.a, true),
                        "spread" | "var" => (g0 * cs, true),
                        _ => (g0, false),
                    };
                    let mut g1 = g1;
                    if !want.is_finite() && !g1.is_finite() {
                        continue;
                    }
                    let is_var = dim == "var";
                    if is_var {
                        // standard deviations and band half-widths are compared as (signed) variances: the square root
                        // turns a rounding residue r of a flat window into sqrt(r)
                        want = want.signum() * want * want;
                        g1 = g1.signum() * g1 * g1;
                    }
                    let big = want.abs().max(g1.abs());
                    let tol = if p2 {
                        1e-12 * big
                    } else if is_var {
                        // the rounding residue of a variance scales with magnitude x spread of the stream, not magnitude^2
                        1e-9 * big + 1e-13 * b.mag * b.spread * mfac * mfac * (1.0 + tt)
                    } else if scale_like {
                        1e-9 * big + 1e-13 * b.mag * mfac * (1.0 + tt)
                    } else {
                        let c = a.c.max(b.c);
                        if !(c <= 1e6) {
                            ctx.stats.skipped_ill += 1;
                            continue;
                        }
                        1e-9 * scale_of(&a.kind) + 1e-12 * (1.0 + tt) * c * scale_of(&a.kind)
                    };
                    ctx.stats.fields_compared += 1;
                    let err = (g1 - want).abs();
                    if tol > 0.0 && err.is_finite() {
                        ctx.stats.max_rel_err = ctx.stats.max_rel_err.max(err / tol);
                    }
                    if !(err <= tol) && !(num_eq(g1, want)) {
                        let clause = if d != 0.0 { "shift-covariance" } else if p2 { "scale-covariance-power-of-two" } else { "scale-covariance" };
                        let l = Live { ind: Ind::new("TR", &[], 1.0).unwrap(), t: a.t, mag: b.mag, strict: 0, eff: 0, cmax: 1.0, tainted: false, dead: false, len0: None,
                            last: vec![], last_in: 0.0, shadow: None, inputs: vec![], mem: 0, pair: None, pmin: 0.0, pmax: 0.0, heap: 0, parts: None,
                            cfg: Cfg { kind: a.kind.clone(), per: vec![], m: a.mult, seed: 0.1, key: String::new(), mem: 0 } };
                        ctx.violate(line_no, &u1, a.idx, Some(&l), clause, json!({"base_unit": base.label(), "scale": cs, "shift": d * base.a, "field": k, "dim": dim,
                            "base_output": g0, "expected": want, "got": g1, "tol": tol}));
                    }
                }
            }
        }
        // Maximum(x) = -Minimum(-x) exactly
        if kinds.len() == 1 && kinds[0] == "MIN" {
            let newop = line["ops"].as_array().unwrap().iter().find(|o| o["op"] == "new").unwrap();
            let per: Vec<usize> = vec![newop["per"][0].as_u64().unwrap() as usize];
            if let Ok(mut mx) = Ind::new("MAX", &per, 1.0) {
                for (oi, op) in line["ops"].as_array().unwrap().iter().enumerate() {
                    match op["op"].as_str().unwrap() {
                        "s" => {
                            let x = base.price(op["x"].as_i64().unwrap());
                            let o = mx.next_s(-x).unwrap()[0];
                            if let Some(r) = r0.iter().find(|r| r.idx == oi) {
                                ctx.stats.fields_compared += 1;
                                if !num_eq(-o, r.raw[0]) {
                                    ctx.violate(line_no, base, r.idx, None, "max-is-not-minus-min-of-minus", json!({"min": r.raw[0], "max_of_negated": o}));
                                }
                            }
                        }
                        "reset" => mx.reset(),
                        "new" => {}
                        _ => break,
                    }
                }
            }
        }
    }
}


/// C15: the public building blocks of a composite, constructed separately and wired exactly as the
/// specification's compositional definition (TaRef) says.
#[derive(Clone)]
pub struct Parts {
    kind: String,
    m: f64,
    a: Vec<Ind>,
    prev: f64,
    is_new: bool,
}

impl Parts {
    pub fn new(cfg: &Cfg) -> Option<Parts> {
        let p = |i: usize| cfg.per.get(i).copied().unwrap_or(1);
        let mk = |k: &str, n: usize| Ind::new(k, &[n], 1.0).ok();
        let a: Vec<Ind> = match cfg.kind.as_str() {
            "BB" => vec![mk("SMA", p(0))?, mk("SD", p(0))?],
            "SLOW_STOCH" => vec![mk("FAST_STOCH", p(0))?, mk("EMA", p(1))?],
            "ATR" => vec![Ind::new("TR", &[], 1.0).ok()?, mk("EMA", p(0))?],
            "MACD" | "PPO" => vec![mk("EMA", p(0))?, mk("EMA", p(1))?, mk("EMA", p(2))?],
            "KC" => vec![mk("EMA", p(0))?, mk("ATR", p(0))?],
            "CE" => vec![mk("MAX", p(0))?, mk("MIN", p(0))?, mk("ATR", p(0))?],
            "CCI" => vec![mk("SMA", p(0))?, mk("MAD", p(0))?],
            "RSI" => vec![mk("EMA", p(0))?, mk("EMA", p(0))?],
            _ => return None,
        };
        Some(Parts { kind: cfg.kind.clone(), m: cfg.m, a, prev: 0.0, is_new: true })
    }
    pub fn reset(&mut self) {
        for i in self.a.iter_mut() {
            i.reset();
        }
        self.prev = 0.0;
        self.is_new = true;
    }
    fn feed(i: &mut Ind, x: &InRec) -> f64 {
        match x {
            InRec::S(v) => i.next_s(*v).unwrap()[0],
            InRec::B(b) => i.next_b(b)[0],
        }
    }
    /// observation vector in the field order of the specification
    pub fn step(&mut self, x: &InRec) -> Vec<f64> {
        let m = self.m;
        let close = match x {
            InRec::S(v) => *v,
            InRec::B(b) => b.c,
        };
        match self.kind.as_str() {
            "BB" => {
                let sma = Self::feed(&mut self.a[0], x);
                let sd = Self::feed(&mut self.a[1], x);
                vec![sma, sd * m, sd * m]
            }
            "SLOW_STOCH" => {
                let f = Self::feed(&mut self.a[0], x);
                vec![self.a[1].next_s(f).unwrap()[0]]
            }
            "ATR" => {
                let tr = Self::feed(&mut self.a[0], x);
                vec![self.a[1].next_s(tr).unwrap()[0]]
            }
            "MACD" => {
                let f = self.a[0].next_s(close).unwrap()[0];
                let s = self.a[1].next_s(close).unwrap()[0];
                let line = f - s;
                let sig = self.a[2].next_s(line).unwrap()[0];
                vec![line, sig, line - sig]
            }
            "PPO" => {
                let f = self.a[0].next_s(close).unwrap()[0];
                let s = self.a[1].next_s(close).unwrap()[0];
                let line = (f - s) / s * 100.0;
                let sig = self.a[2].next_s(line).unwrap()[0];
                vec![line, sig, line - sig]
            }
            "KC" => {
                let price = match x {
                    InRec::S(v) => *v,
                    InRec::B(b) => (b.c + b.h + b.l) / 3.0,
                };
                let avg = self.a[0].next_s(price).unwrap()[0];
                let atr = Self::feed(&mut self.a[1], x);
                vec![avg, avg + m * atr, avg - m * atr]
            }
            "CE" => {
                let b = match x {
                    InRec::B(b) => *b,
                    InRec::S(v) => Bar::one(*v),
                };
                let mx = self.a[0].next_s(b.h).unwrap()[0];
                let mn = self.a[1].next_s(b.l).unwrap()[0];
                let atr = self.a[2].next_b(&b)[0];
                vec![mx - m * atr, mn + m * atr]
            }
            "CCI" => {
                let b = match x {
                    InRec::B(b) => *b,
                    InRec::S(v) => Bar::one(*v),
                };
                let tp = (b.c + b.h + b.l) / 3.0;
                let sma = self.a[0].next_s(tp).unwrap()[0];
                let mad = self.a[1].next_s(tp).unwrap()[0];
                vec![if mad == 0.0 { 0.0 } else { (tp - sma) / (0.015 * mad) }]
            }
            "RSI" => {
                let (mut up, mut down) = (0.0, 0.0);
                if self.is_new {
                    self.is_new = false;
                    up = 0.1;
                    down = 0.1;
                } else if close > self.prev {
                    up = close - self.prev;
                } else {
                    down = self.prev - close;
                }
                self.prev = close;
                let u = self.a[0].next_s(up).unwrap()[0];
                let d = self.a[1].next_s(down).unwrap()[0];
                vec![if u + d == 0.0 { 50.0 } else { 100.0 * u / (u + d) }]
            }
            _ => vec![],
        }
    }
}
