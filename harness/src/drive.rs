//! Impl -> spec direction: a seeded driver exercises the real crate on op sequences of its own choosing, on several
//! real threads, and records one event per public call (at the call's return) as integers and strings only.
//! The driver judges nothing: TLC validates the recorded trace against TaTrace.tla.

use crate::adapter::{observe, Bar, Ind, KINDS};
use crate::units::Rng;
use serde_json::{json, Value};
use std::panic::{catch_unwind, AssertUnwindSafe};

const QSCALE: f64 = 65536.0;
const NOQ: i64 = -2000000000;
const MULTS: [(i64, i64, &str); 5] = [(2, 1, "2"), (1, 2, "0.5"), (0, 1, "0"), (3, 1, "3"), (-1, 1, "-1")];

fn nper(kind: &str) -> usize {
    match kind {
        "TR" | "OBV" => 0,
        "MACD" | "PPO" => 3,
        "SLOW_STOCH" => 2,
        _ => 1,
    }
}

fn enc(out: &[f64]) -> (Vec<&'static str>, Vec<i64>, Vec<i64>) {
    let mut cls = vec![];
    let mut q = vec![];
    let mut lat = vec![];
    for &g in out {
        cls.push(if g.is_nan() { "nan" } else if g == f64::INFINITY { "pinf" } else if g == f64::NEG_INFINITY { "ninf" } else { "fin" });
        let s = g * QSCALE;
        q.push(if g.is_finite() && s.abs() < 1.0e9 { s.round() as i64 } else { NOQ });
        lat.push(if g.is_finite() && g == g.trunc() && g.abs() < 1.0e9 { g as i64 } else { NOQ });
    }
    (cls, q, lat)
}

struct Inst {
    id: i64,
    ind: Ind,
    kind: String,
    t: u64,
    mtext: &'static str,
    cfg: Value,
}

fn tok_val(s: &str) -> f64 {
    match s {
        "NaN" => f64::NAN,
        "PInf" => f64::INFINITY,
        "NInf" => f64::NEG_INFINITY,
        "FMax" => f64::MAX,
        "NFMax" => -f64::MAX,
        "Sub" => 5e-324,
        _ => -0.0,
    }
}

/// one thread's run: returns (events, configurations of every id it used)
fn run_thread(th: u64, seed: u64, nops: usize, faults: bool) -> (Vec<Value>, Vec<(i64, Value)>) {
    let mut r = Rng(seed.wrapping_mul(0x9E3779B97F4A7C15) ^ (th + 1).wrapping_mul(0xD1B54A32D192ED03));
    let mut ev: Vec<Value> = vec![];
    let mut cfgs: Vec<(i64, Value)> = vec![];
    let mut live: Vec<Inst> = vec![];
    let mut blobs: Vec<(i64, String, Vec<u8>, Value, &'static str, u64)> = vec![]; // slot, kind, bytes, cfg, mtext, t
    let mut next_id = (th as i64) * 100000 + 1;
    let mut next_slot = (th as i64) * 100000 + 1;
    while ev.len() < nops {
        let roll = r.below(100);
        if live.is_empty() || (roll < 3 && live.len() < 6) {
            // ---- new (sometimes with a zero period: must be rejected)
            let kind = KINDS[r.below(22) as usize];
            let np = nper(kind);
            let zero = np > 0 && r.below(12) == 0;
            let mut per: Vec<usize> = (0..np).map(|_| [1, 2, 3, 4, 5, 7, 9, 14, 20][r.below(9) as usize]).collect();
            if zero {
                let k = r.below(np as u64) as usize;
                per[k] = 0;
            }
            let m = MULTS[r.below(5) as usize];
            let id = next_id;
            next_id += 1;
            let p3 = |k: usize| per.get(k).copied().unwrap_or(1);
            let cfg = json!({"kind": kind, "n": p3(0), "n2": p3(1), "n3": p3(2), "m": [m.0, m.1], "seed": [1, 10]});
            cfgs.push((id, cfg.clone()));
            let res = catch_unwind(AssertUnwindSafe(|| Ind::new(kind, &per, m.0 as f64 / m.1 as f64)));
            match res {
                Ok(Ok(ind)) => {
                    ev.push(json!({"op": "new", "i": id, "res": "Ok", "per": per}));
                    live.push(Inst { id, ind, kind: kind.to_string(), t: 0, mtext: m.2, cfg });
                }
                Ok(Err(e)) => ev.push(json!({"op": "newfail", "i": id, "res": e, "per": per})),
                Err(_) => ev.push(json!({"op": "newfail", "i": id, "res": "panic", "per": per})),
            }
            continue;
        }
        let k = r.below(live.len() as u64) as usize;
        if roll < 80 {
            // ---- next
            let i = &mut live[k];
            let scalar = Ind::has_scalar(&i.kind) && r.below(3) != 0;
            let tok = faults && r.below(40) == 0;
            let mut e;
            let out: Result<Vec<f64>, ()>;
            if tok {
                let name = ["NaN", "PInf", "NInf", "FMax", "NFMax", "Sub", "NZero"][r.below(7) as usize];
                let x = tok_val(name);
                let asbar = r.below(2) == 0;
                e = json!({"op": if asbar && Ind::has_scalar(&i.kind) { "tokb" } else { "tok" }, "i": i.id, "x": name});
                out = if Ind::has_scalar(&i.kind) && !asbar {
                    catch_unwind(AssertUnwindSafe(|| i.ind.next_s(x).unwrap())).map_err(|_| ())
                } else {
                    let b = Bar::one(x);
                    catch_unwind(AssertUnwindSafe(|| i.ind.next_b(&b))).map_err(|_| ())
                };
            } else if scalar {
                let x = 1 + r.below(12) as i64;
                e = json!({"op": "s", "i": i.id, "x": x});
                out = catch_unwind(AssertUnwindSafe(|| i.ind.next_s(x as f64).unwrap())).map_err(|_| ());
            } else {
                let mut v = [1 + r.below(12) as i64, 1 + r.below(12) as i64, 1 + r.below(12) as i64];
                if !(faults && r.below(10) == 0) {
                    v.sort();
                }
                let (l, c, h) = (v[0], v[1], v[2]);
                let (o, vol) = (1 + r.below(12) as i64, r.below(4) as i64);
                e = json!({"op": "b", "i": i.id, "o": o, "h": h, "l": l, "c": c, "v": vol});
                let b = Bar { o: o as f64, h: h as f64, l: l as f64, c: c as f64, v: vol as f64 };
                out = catch_unwind(AssertUnwindSafe(|| i.ind.next_b(&b))).map_err(|_| ());
            }
            i.t += 1;
            match out {
                Ok(raw) => {
                    let (cls, q, lat) = enc(&observe(&i.kind, &raw));
                    e["t"] = json!(i.t);
                    e["cls"] = json!(cls);
                    e["q"] = json!(q);
                    e["lat"] = json!(lat);
                    ev.push(e);
                }
                Err(()) => {
                    e["op"] = json!("panic");
                    ev.push(e);
                    live.remove(k);
                }
            }
        } else if roll < 85 {
            // a panic anywhere in the code under test is data: it is recorded as an event (which the specification never allows)
            let i = &mut live[k];
            if catch_unwind(AssertUnwindSafe(|| i.ind.reset())).is_err() {
                ev.push(json!({"op": "panic", "i": i.id, "during": "reset"}));
                live.remove(k);
                continue;
            }
            i.t = 0;
            ev.push(json!({"op": "reset", "i": i.id}));
        } else if roll < 88 && live.len() < 8 {
            let id = next_id;
            next_id += 1;
            let cl = match catch_unwind(AssertUnwindSafe(|| live[k].ind.clone())) {
                Ok(c) => c,
                Err(_) => {
                    ev.push(json!({"op": "panic", "i": live[k].id, "during": "clone"}));
                    live.remove(k);
                    continue;
                }
            };
            let c = Inst { id, ind: cl, kind: live[k].kind.clone(), t: live[k].t, mtext: live[k].mtext, cfg: live[k].cfg.clone() };
            cfgs.push((id, c.cfg.clone()));
            ev.push(json!({"op": "clone", "i": live[k].id, "j": id}));
            live.push(c);
        } else if roll == 89 && live.len() >= 2 {
            // clone_from into an existing instance of the same kind
            let kk = r.below(live.len() as u64) as usize;
            if kk != k && live[kk].kind == live[k].kind {
                let (src_id, src_ind, src_t, src_m, src_cfg) = (live[k].id, live[k].ind.clone(), live[k].t, live[k].mtext, live[k].cfg.clone());
                let ok = catch_unwind(AssertUnwindSafe(|| live[kk].ind.clone_from_ind(&src_ind))).unwrap_or(false);
                if ok {
                    live[kk].t = src_t;
                    live[kk].mtext = src_m;
                    live[kk].cfg = src_cfg;
                    ev.push(json!({"op": "cloneinto", "i": src_id, "j": live[kk].id}));
                } else {
                    ev.push(json!({"op": "panic", "i": live[kk].id, "during": "clone_from"}));
                    live.remove(kk);
                }
            }
        } else if roll < 92 {
            let saved = match catch_unwind(AssertUnwindSafe(|| live[k].ind.save())) {
                Ok(r) => r,
                Err(_) => {
                    ev.push(json!({"op": "panic", "i": live[k].id, "during": "serialize"}));
                    live.remove(k);
                    continue;
                }
            };
            if let Ok(bytes) = saved {
                let s = next_slot;
                next_slot += 1;
                ev.push(json!({"op": "save", "i": live[k].id, "s": s, "len": bytes.len()}));
                blobs.push((s, live[k].kind.clone(), bytes, live[k].cfg.clone(), live[k].mtext, live[k].t));
                if blobs.len() > 4 {
                    blobs.remove(0);
                }
            }
        } else if roll < 95 && !blobs.is_empty() && live.len() < 8 {
            let b = &blobs[r.below(blobs.len() as u64) as usize];
            let restored = catch_unwind(AssertUnwindSafe(|| Ind::restore(&b.1, &b.2)));
            if restored.is_err() {
                ev.push(json!({"op": "panic", "i": -1, "during": "deserialize"}));
            }
            if let Ok(Ok(ind)) = restored {
                let id = next_id;
                next_id += 1;
                cfgs.push((id, b.3.clone()));
                ev.push(json!({"op": "restore", "s": b.0, "j": id}));
                live.push(Inst { id, ind, kind: b.1.clone(), t: b.5, mtext: b.4, cfg: b.3.clone() });
            }
        } else if roll < 98 {
            let i = &live[k];
            match catch_unwind(AssertUnwindSafe(|| (i.ind.display(), i.ind.period(), i.ind.debug().len()))) {
                Ok((d, p, _)) => ev.push(json!({"op": "query", "i": i.id, "disp": d, "per": p.map(|p| p as i64).unwrap_or(-1), "mtext": i.mtext})),
                Err(_) => ev.push(json!({"op": "panic", "i": i.id, "during": "display"})),
            }
        } else if live.len() > 1 {
            ev.push(json!({"op": "drop", "i": live[k].id}));
            live.remove(k);
        }
    }
    (ev, cfgs)
}

/// `drive --seed N --threads T --ops N --faults 0|1 --out DIR`: writes DIR/trace.ndjson and DIR/cfgs.json
pub fn cmd_drive(seed: u64, threads: u64, nops: usize, faults: bool, out: &str) -> i32 {
    std::panic::set_hook(Box::new(|_| {}));
    let handles: Vec<_> = (0..threads).map(|th| std::thread::spawn(move || run_thread(th, seed, nops, faults))).collect();
    let mut logs = vec![];
    let mut cfgs = serde_json::Map::new();
    let mut slots: Vec<i64> = vec![];
    for h in handles {
        let (ev, c) = h.join().expect("driver thread");
        for (id, v) in c {
            cfgs.insert(id.to_string(), v);
        }
        logs.push(ev);
    }
    // any merge of the per-thread logs is a legal linearization (instances are never shared and actions on distinct
    // instances commute): interleave by per-thread sequence number, no clock involved
    let mut merged: Vec<Value> = vec![];
    let longest = logs.iter().map(|l| l.len()).max().unwrap_or(0);
    for k in 0..longest {
        for (th, l) in logs.iter().enumerate() {
            if let Some(e) = l.get(k) {
                let mut e = e.clone();
                e["th"] = json!(th);
                e["seq"] = json!(k);
                if e["op"] == "save" {
                    slots.push(e["s"].as_i64().unwrap());
                }
                merged.push(e);
            }
        }
    }
    std::fs::create_dir_all(out).ok();
    let text: String = merged.iter().map(|e| serde_json::to_string(e).unwrap() + "\n").collect();
    std::fs::write(format!("{}/trace.ndjson", out), text).unwrap();
    std::fs::write(format!("{}/cfgs.json", out), serde_json::to_string(&json!({"cfgs": cfgs, "slots": slots, "events": merged.len()})).unwrap()).unwrap();
    0
}
