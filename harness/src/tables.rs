//! Replay of the table-like models: constructors / accessors / Display / Default (Ctor.tla, C11)
//! and the DataItem builder (DataItem.tla, C16). Expected results come from TLC.

use crate::adapter::{Bar, Ind};
use serde_json::{json, Value};
use std::panic::{catch_unwind, AssertUnwindSafe};
use ta::indicators::{Maximum, Minimum, SimpleMovingAverage, TrueRange};
use ta::{Close, DataItem, High, Low, Next, Open, Volume};

pub struct Out {
    pub cases: u64,
    pub checks: u64,
    pub distinct: std::collections::HashSet<String>,
    pub violations: Vec<Value>,
    pub vio_total: u64,
    pub samples: Vec<Value>,
    pub by_result: std::collections::HashMap<String, u64>,
}

impl Out {
    pub fn new() -> Out {
        Out { cases: 0, checks: 0, distinct: Default::default(), violations: vec![], vio_total: 0, samples: vec![], by_result: Default::default() }
    }
    fn violate(&mut self, prop: &str, line: u64, clause: &str, case: &Value, detail: Value) {
        self.vio_total += 1;
        if self.violations.len() < 40 {
            self.violations.push(json!({"property": prop, "clause": clause, "line": line, "step": 0, "kind": case["kind"], "per": case["per"],
                "mult": 0.0, "t": 0, "unit": {"a": 1.0, "b": 0.0, "av": 1.0, "big": 1e6}, "detail": detail, "case": case}));
        }
    }
}

fn feed_some(ind: &mut Ind, k: usize) -> Vec<f64> {
    let mut last = vec![];
    for j in 0..k {
        let x = 10.0 + ((j * 7) % 5) as f64 - 0.25 * (j % 3) as f64;
        last = if Ind::has_scalar(ind.kind()) && j % 2 == 0 {
            ind.next_s(x).unwrap()
        } else {
            ind.next_b(&Bar { o: x, h: x + 1.5, l: x - 1.0, c: x + 0.5, v: 100.0 + j as f64 })
        };
    }
    last
}

pub fn ctor_case(out: &mut Out, line: u64, c: &Value) {
    out.cases += 1;
    let kind = c["kind"].as_str().unwrap().to_string();
    let per: Vec<usize> = c["per"].as_array().unwrap().iter().map(|s| s.as_str().unwrap().parse::<u64>().expect("period") as usize).collect();
    let mtok = c["mult"].as_str().unwrap_or("");
    let mult: f64 = if mtok.is_empty() { 1.0 } else { mtok.parse().expect("multiplier") };
    let want = c["res"].as_str().unwrap();
    *out.by_result.entry(want.to_string()).or_insert(0) += 1;
    out.distinct.insert(format!("{}:{:?}:{}", kind, per, mtok));
    if out.samples.len() < 3 {
        out.samples.push(c.clone());
    }
    let r = catch_unwind(AssertUnwindSafe(|| Ind::new(&kind, &per, mult)));
    out.checks += 1;
    let mut ind = match r {
        Err(_) => {
            out.violate("C11", line, "ctor-panic", c, json!({}));
            return;
        }
        Ok(Err(e)) => {
            if want != e {
                out.violate("C11", line, "ctor-rejected-valid-parameters", c, json!({"got": e, "want": want}));
            }
            return;
        }
        Ok(Ok(i)) => {
            if want != "Ok" {
                out.violate("C11", line, "ctor-accepted-zero-period", c, json!({"want": want}));
                return;
            }
            i
        }
    };
    let check_params = |out: &mut Out, ind: &Ind, when: &str| {
        out.checks += 1;
        let d = ind.display();
        if d != c["display"].as_str().unwrap() {
            out.violate("C11", line, "display-text", c, json!({"got": d, "want": c["display"], "when": when}));
        }
        let p = c["period"].as_str().unwrap();
        let want_p = if p.is_empty() { None } else { Some(p.parse::<u64>().unwrap() as usize) };
        if ind.period() != want_p {
            out.violate("C11", line, "period-accessor", c, json!({"got": ind.period(), "want": p, "when": when}));
        }
        if !mtok.is_empty() {
            match ind.multiplier() {
                Some(m) if m.to_bits() == mult.to_bits() || (m.is_nan() && mult.is_nan()) => {}
                other => out.violate("C11", line, "multiplier-accessor", c, json!({"got": format!("{:?}", other), "want": mtok, "when": when})),
            }
        }
    };
    check_params(out, &ind, "after new");
    // parameters are stable for the whole life of the indicator
    if per.iter().all(|p| *p <= 5000) {
        let r = catch_unwind(AssertUnwindSafe(|| {
            feed_some(&mut ind, 5);
            ind.reset();
            feed_some(&mut ind, 2);
        }));
        if r.is_err() {
            out.violate("C11", line, "panic-after-valid-ctor", c, json!({}));
            return;
        }
        check_params(out, &ind, "after next/reset/next");
    }
}

pub fn default_cases(out: &mut Out, line: u64, table: &Value) {
    for (kind, c) in table.as_object().unwrap() {
        out.cases += 1;
        out.checks += 1;
        let per: Vec<usize> = c["per"].as_array().unwrap().iter().map(|s| s.as_str().unwrap().parse::<usize>().unwrap()).collect();
        let mtok = c["mult"].as_str().unwrap_or("");
        let mult: f64 = if mtok.is_empty() { 1.0 } else { mtok.parse().unwrap() };
        let r = catch_unwind(AssertUnwindSafe(|| (Ind::default_of(kind), Ind::new(kind, &per, mult))));
        match r {
            Ok((Some(mut d), Ok(mut n))) => {
                if d.display() != c["display"].as_str().unwrap() {
                    out.violate("C11", line, "default-display", c, json!({"got": d.display(), "want": c["display"]}));
                }
                let mut same = true;
                for j in 0..30 {
                    let a = feed_some(&mut d, 1 + (j % 2));
                    let b = feed_some(&mut n, 1 + (j % 2));
                    if a.len() != b.len() || a.iter().zip(b.iter()).any(|(x, y)| x.to_bits() != y.to_bits() && !(x.is_nan() && y.is_nan())) {
                        same = false;
                    }
                }
                if !same || d.period() != n.period() || d.multiplier().map(|m| m.to_bits()) != n.multiplier().map(|m| m.to_bits()) {
                    out.violate("C11", line, "default-differs-from-new-with-documented-defaults", c, json!({"kind": kind}));
                }
            }
            _ => out.violate("C11", line, "default-construction-failed", c, json!({"kind": kind})),
        }
    }
}

const LATTICE: [f64; 10] = [f64::NEG_INFINITY, -2.0, -1.0, -0.0, 0.0, 1.0, 2.0, 3.0, f64::INFINITY, f64::NAN];
const NONE: i64 = -1000000;

fn di_value(v: i64, int_mode: bool) -> f64 {
    if int_mode {
        (v as f64) * 0.37
    } else {
        LATTICE[v as usize]
    }
}

fn bits_eq(a: f64, b: f64) -> bool {
    a.to_bits() == b.to_bits() || (a.is_nan() && b.is_nan())
}

pub fn dataitem_case(out: &mut Out, line: u64, c: &Value) {
    out.cases += 1;
    let int_mode = c["int"].as_bool().unwrap_or(false);
    let want = c["res"].as_str().unwrap();
    *out.by_result.entry(want.to_string()).or_insert(0) += 1;
    out.distinct.insert(format!("{}:{}", c["slots"], c["path"]));
    if out.samples.len() < 3 {
        out.samples.push(c.clone());
    }
    let path: Vec<(i64, i64)> = c["path"].as_array().unwrap().iter().map(|p| (p[0].as_i64().unwrap(), p[1].as_i64().unwrap())).collect();
    let r = catch_unwind(AssertUnwindSafe(|| {
        let mut b = DataItem::builder();
        for (f, v) in path.iter() {
            let x = di_value(*v, int_mode);
            b = match f {
                1 => b.open(x),
                2 => b.high(x),
                3 => b.low(x),
                4 => b.close(x),
                _ => b.volume(x),
            };
        }
        b.build()
    }));
    out.checks += 1;
    let res = match r {
        Err(_) => {
            out.violate("C16", line, "builder-panic", c, json!({}));
            return;
        }
        Ok(r) => r,
    };
    let got = match &res {
        Ok(_) => "Ok".to_string(),
        Err(e) => format!("{:?}", e),
    };
    if got != want {
        out.violate("C16", line, "build-result", c, json!({"got": got, "want": want}));
        return;
    }
    if let Ok(item) = res {
        let slots: Vec<i64> = c["slots"].as_array().unwrap().iter().map(|x| x.as_i64().unwrap()).collect();
        let exp: Vec<f64> = slots.iter().map(|v| if *v == NONE { f64::NAN } else { di_value(*v, int_mode) }).collect();
        let gotv = [item.open(), item.high(), item.low(), item.close(), item.volume()];
        out.checks += 1;
        if !(0..5).all(|k| bits_eq(gotv[k], exp[k])) {
            out.violate("C16", line, "getter-not-last-set-value", c, json!({"got": format!("{:?}", gotv), "want": format!("{:?}", exp)}));
        }
        let cl = item.clone();
        if cl != item {
            out.violate("C16", line, "clone-not-equal", c, json!({}));
        }
        // serde round trip (C06's DataItem clause)
        match bincode::serialize(&item).ok().and_then(|b| bincode::deserialize::<DataItem>(&b).ok()) {
            Some(back) if back == item => {}
            _ => out.violate("C16", line, "bincode-roundtrip-not-equal", c, json!({})),
        }
        // the getters are what an indicator path reads
        out.checks += 1;
        let a = SimpleMovingAverage::new(1).unwrap().next(&item);
        let lo = Minimum::new(1).unwrap().next(&item);
        let hi = Maximum::new(1).unwrap().next(&item);
        let tr = TrueRange::new().next(&item);
        // numerically (an average of -0.0 may legitimately come out as +0.0)
        let neq = |x: f64, y: f64| x == y || (x.is_nan() && y.is_nan());
        if !(neq(a, exp[3]) && neq(lo, exp[2]) && neq(hi, exp[1]) && neq(tr, exp[1] - exp[2])) {
            out.violate("C16", line, "indicator-path-reads-wrong-field", c, json!({"sma1": a, "min1": lo, "max1": hi, "tr": tr}));
        }
    }
}
