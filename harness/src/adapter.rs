//! The only file that names ta-rs types. Everything else in the harness talks to `Ind`.
//!
//! The trait bounds required here (Clone, Debug, Display, Default, Reset, Send + 'static,
//! Serialize/Deserialize, Next<f64>, Next<&Bar>, Next<&DataItem>, Period) are a by-product
//! check of C19: removing one breaks the harness build (reported as a tool error, exit 2).

use serde::{de::DeserializeOwned, Serialize};
use std::fmt::{Debug, Display};
use ta::indicators::*;
use ta::{Close, DataItem, High, Low, Next, Open, Period, Reset, Volume};

/// A bar whose five fields are free to be inconsistent (user type implementing the price traits).
#[derive(Clone, Copy, Debug, PartialEq)]
pub struct Bar {
    pub o: f64,
    pub h: f64,
    pub l: f64,
    pub c: f64,
    pub v: f64,
}
impl Open for Bar {
    fn open(&self) -> f64 {
        self.o
    }
}
impl High for Bar {
    fn high(&self) -> f64 {
        self.h
    }
}
impl Low for Bar {
    fn low(&self) -> f64 {
        self.l
    }
}
impl Close for Bar {
    fn close(&self) -> f64 {
        self.c
    }
}
impl Volume for Bar {
    fn volume(&self) -> f64 {
        self.v
    }
}
impl Bar {
    pub fn one(x: f64) -> Bar {
        Bar { o: x, h: x, l: x, c: x, v: 1.0 }
    }
    pub fn data_item(&self) -> Option<DataItem> {
        DataItem::builder().open(self.o).high(self.h).low(self.l).close(self.c).volume(self.v).build().ok()
    }
}

pub const KINDS: [&str; 22] = [
    "SMA", "WMA", "SD", "MAD", "MIN", "MAX", "EMA", "TR", "ATR", "MACD", "PPO", "RSI", "FAST_STOCH",
    "SLOW_STOCH", "ROC", "ER", "BB", "KC", "CE", "CCI", "MFI", "OBV",
];

fn bounds<T>()
where
    T: Clone + Debug + Display + Default + Reset + Send + Sync + Unpin + 'static + Serialize + DeserializeOwned,
{
}
#[allow(dead_code)]
fn static_bounds() {
    bounds::<SimpleMovingAverage>();
    bounds::<WeightedMovingAverage>();
    bounds::<StandardDeviation>();
    bounds::<MeanAbsoluteDeviation>();
    bounds::<Minimum>();
    bounds::<Maximum>();
    bounds::<ExponentialMovingAverage>();
    bounds::<TrueRange>();
    bounds::<AverageTrueRange>();
    bounds::<MovingAverageConvergenceDivergence>();
    bounds::<PercentagePriceOscillator>();
    bounds::<RelativeStrengthIndex>();
    bounds::<FastStochastic>();
    bounds::<SlowStochastic>();
    bounds::<RateOfChange>();
    bounds::<EfficiencyRatio>();
    bounds::<BollingerBands>();
    bounds::<KeltnerChannel>();
    bounds::<ChandelierExit>();
    bounds::<CommodityChannelIndex>();
    bounds::<MoneyFlowIndex>();
    bounds::<OnBalanceVolume>();
}

#[derive(Clone, Debug)]
pub enum Ind {
    Sma(SimpleMovingAverage),
    Wma(WeightedMovingAverage),
    Sd(StandardDeviation),
    Mad(MeanAbsoluteDeviation),
    Min(Minimum),
    Max(Maximum),
    Ema(ExponentialMovingAverage),
    Tr(TrueRange),
    Atr(AverageTrueRange),
    Macd(MovingAverageConvergenceDivergence),
    Ppo(PercentagePriceOscillator),
    Rsi(RelativeStrengthIndex),
    Fs(FastStochastic),
    Ss(SlowStochastic),
    Roc(RateOfChange),
    Er(EfficiencyRatio),
    Bb(BollingerBands),
    Kc(KeltnerChannel),
    Ce(ChandelierExit),
    Cci(CommodityChannelIndex),
    Mfi(MoneyFlowIndex),
    Obv(OnBalanceVolume),
}

macro_rules! each {
    ($self:expr, $i:ident => $e:expr) => {
        match $self {
            Ind::Sma($i) => $e,
            Ind::Wma($i) => $e,
            Ind::Sd($i) => $e,
            Ind::Mad($i) => $e,
            Ind::Min($i) => $e,
            Ind::Max($i) => $e,
            Ind::Ema($i) => $e,
            Ind::Tr($i) => $e,
            Ind::Atr($i) => $e,
            Ind::Macd($i) => $e,
            Ind::Ppo($i) => $e,
            Ind::Rsi($i) => $e,
            Ind::Fs($i) => $e,
            Ind::Ss($i) => $e,
            Ind::Roc($i) => $e,
            Ind::Er($i) => $e,
            Ind::Bb($i) => $e,
            Ind::Kc($i) => $e,
            Ind::Ce($i) => $e,
            Ind::Cci($i) => $e,
            Ind::Mfi($i) => $e,
            Ind::Obv($i) => $e,
        }
    };
}

fn err_name(e: ta::errors::TaError) -> String {
    format!("{:?}", e)
}

impl Ind {
    /// `per` holds the period arguments the constructor takes (0, 1, 2 or 3 of them).
    pub fn new(kind: &str, per: &[usize], mult: f64) -> Result<Ind, String> {
        let p = |i: usize| per.get(i).copied().unwrap_or(1);
        Ok(match kind {
            "SMA" => Ind::Sma(SimpleMovingAverage::new(p(0)).map_err(err_name)?),
            "WMA" => Ind::Wma(WeightedMovingAverage::new(p(0)).map_err(err_name)?),
            "SD" => Ind::Sd(StandardDeviation::new(p(0)).map_err(err_name)?),
            "MAD" => Ind::Mad(MeanAbsoluteDeviation::new(p(0)).map_err(err_name)?),
            "MIN" => Ind::Min(Minimum::new(p(0)).map_err(err_name)?),
            "MAX" => Ind::Max(Maximum::new(p(0)).map_err(err_name)?),
            "EMA" => Ind::Ema(ExponentialMovingAverage::new(p(0)).map_err(err_name)?),
            "TR" => Ind::Tr(TrueRange::new()),
            "ATR" => Ind::Atr(AverageTrueRange::new(p(0)).map_err(err_name)?),
            "MACD" => Ind::Macd(MovingAverageConvergenceDivergence::new(p(0), p(1), p(2)).map_err(err_name)?),
            "PPO" => Ind::Ppo(PercentagePriceOscillator::new(p(0), p(1), p(2)).map_err(err_name)?),
            "RSI" => Ind::Rsi(RelativeStrengthIndex::new(p(0)).map_err(err_name)?),
            "FAST_STOCH" => Ind::Fs(FastStochastic::new(p(0)).map_err(err_name)?),
            "SLOW_STOCH" => Ind::Ss(SlowStochastic::new(p(0), p(1)).map_err(err_name)?),
            "ROC" => Ind::Roc(RateOfChange::new(p(0)).map_err(err_name)?),
            "ER" => Ind::Er(EfficiencyRatio::new(p(0)).map_err(err_name)?),
            "BB" => Ind::Bb(BollingerBands::new(p(0), mult).map_err(err_name)?),
            "KC" => Ind::Kc(KeltnerChannel::new(p(0), mult).map_err(err_name)?),
            "CE" => Ind::Ce(ChandelierExit::new(p(0), mult).map_err(err_name)?),
            "CCI" => Ind::Cci(CommodityChannelIndex::new(p(0)).map_err(err_name)?),
            "MFI" => Ind::Mfi(MoneyFlowIndex::new(p(0)).map_err(err_name)?),
            "OBV" => Ind::Obv(OnBalanceVolume::new()),
            _ => return Err(format!("unknown kind {}", kind)),
        })
    }

    pub fn default_of(kind: &str) -> Option<Ind> {
        Some(match kind {
            "SMA" => Ind::Sma(Default::default()),
            "WMA" => Ind::Wma(Default::default()),
            "SD" => Ind::Sd(Default::default()),
            "MAD" => Ind::Mad(Default::default()),
            "MIN" => Ind::Min(Default::default()),
            "MAX" => Ind::Max(Default::default()),
            "EMA" => Ind::Ema(Default::default()),
            "TR" => Ind::Tr(Default::default()),
            "ATR" => Ind::Atr(Default::default()),
            "MACD" => Ind::Macd(Default::default()),
            "PPO" => Ind::Ppo(Default::default()),
            "RSI" => Ind::Rsi(Default::default()),
            "FAST_STOCH" => Ind::Fs(Default::default()),
            "SLOW_STOCH" => Ind::Ss(Default::default()),
            "ROC" => Ind::Roc(Default::default()),
            "ER" => Ind::Er(Default::default()),
            "BB" => Ind::Bb(Default::default()),
            "KC" => Ind::Kc(Default::default()),
            "CE" => Ind::Ce(Default::default()),
            "CCI" => Ind::Cci(Default::default()),
            "MFI" => Ind::Mfi(Default::default()),
            "OBV" => Ind::Obv(Default::default()),
            _ => return None,
        })
    }

    pub fn kind(&self) -> &'static str {
        match self {
            Ind::Sma(_) => "SMA",
            Ind::Wma(_) => "WMA",
            Ind::Sd(_) => "SD",
            Ind::Mad(_) => "MAD",
            Ind::Min(_) => "MIN",
            Ind::Max(_) => "MAX",
            Ind::Ema(_) => "EMA",
            Ind::Tr(_) => "TR",
            Ind::Atr(_) => "ATR",
            Ind::Macd(_) => "MACD",
            Ind::Ppo(_) => "PPO",
            Ind::Rsi(_) => "RSI",
            Ind::Fs(_) => "FAST_STOCH",
            Ind::Ss(_) => "SLOW_STOCH",
            Ind::Roc(_) => "ROC",
            Ind::Er(_) => "ER",
            Ind::Bb(_) => "BB",
            Ind::Kc(_) => "KC",
            Ind::Ce(_) => "CE",
            Ind::Cci(_) => "CCI",
            Ind::Mfi(_) => "MFI",
            Ind::Obv(_) => "OBV",
        }
    }

    pub fn has_scalar(kind: &str) -> bool {
        !matches!(kind, "CE" | "CCI" | "MFI" | "OBV")
    }

    /// Next<f64>; raw output fields in declaration order. None if the kind has no scalar path.
    pub fn next_s(&mut self, x: f64) -> Option<Vec<f64>> {
        Some(match self {
            Ind::Sma(i) => vec![i.next(x)],
            Ind::Wma(i) => vec![i.next(x)],
            Ind::Sd(i) => vec![i.next(x)],
            Ind::Mad(i) => vec![i.next(x)],
            Ind::Min(i) => vec![i.next(x)],
            Ind::Max(i) => vec![i.next(x)],
            Ind::Ema(i) => vec![i.next(x)],
            Ind::Tr(i) => vec![i.next(x)],
            Ind::Atr(i) => vec![i.next(x)],
            Ind::Macd(i) => {
                let o = i.next(x);
                tuple3(o.clone().into(), [o.macd, o.signal, o.histogram]);
                vec![o.macd, o.signal, o.histogram]
            }
            Ind::Ppo(i) => {
                let o = i.next(x);
                tuple3(o.clone().into(), [o.ppo, o.signal, o.histogram]);
                vec![o.ppo, o.signal, o.histogram]
            }
            Ind::Rsi(i) => vec![i.next(x)],
            Ind::Fs(i) => vec![i.next(x)],
            Ind::Ss(i) => vec![i.next(x)],
            Ind::Roc(i) => vec![i.next(x)],
            Ind::Er(i) => vec![i.next(x)],
            Ind::Bb(i) => {
                let o = i.next(x);
                vec![o.average, o.upper, o.lower]
            }
            Ind::Kc(i) => {
                let o = i.next(x);
                vec![o.average, o.upper, o.lower]
            }
            Ind::Ce(_) | Ind::Cci(_) | Ind::Mfi(_) | Ind::Obv(_) => return None,
        })
    }

    /// Next<&T> for any T implementing the five price traits.
    pub fn next_b<B: Open + High + Low + Close + Volume>(&mut self, b: &B) -> Vec<f64> {
        match self {
            Ind::Sma(i) => vec![i.next(b)],
            Ind::Wma(i) => vec![i.next(b)],
            Ind::Sd(i) => vec![i.next(b)],
            Ind::Mad(i) => vec![i.next(b)],
            Ind::Min(i) => vec![i.next(b)],
            Ind::Max(i) => vec![i.next(b)],
            Ind::Ema(i) => vec![i.next(b)],
            Ind::Tr(i) => vec![i.next(b)],
            Ind::Atr(i) => vec![i.next(b)],
            Ind::Macd(i) => {
                let o = i.next(b);
                tuple3(o.clone().into(), [o.macd, o.signal, o.histogram]);
                vec![o.macd, o.signal, o.histogram]
            }
            Ind::Ppo(i) => {
                let o = i.next(b);
                tuple3(o.clone().into(), [o.ppo, o.signal, o.histogram]);
                vec![o.ppo, o.signal, o.histogram]
            }
            Ind::Rsi(i) => vec![i.next(b)],
            Ind::Fs(i) => vec![i.next(b)],
            Ind::Ss(i) => vec![i.next(b)],
            Ind::Roc(i) => vec![i.next(b)],
            Ind::Er(i) => vec![i.next(b)],
            Ind::Bb(i) => {
                let o = i.next(b);
                vec![o.average, o.upper, o.lower]
            }
            Ind::Kc(i) => {
                let o = i.next(b);
                vec![o.average, o.upper, o.lower]
            }
            Ind::Ce(i) => {
                let o = i.next(b);
                let t: (f64, f64) = o.clone().into();
                tuple3((t.0, t.1, 0.0), [o.long, o.short, 0.0]);
                vec![o.long, o.short]
            }
            Ind::Cci(i) => vec![i.next(b)],
            Ind::Mfi(i) => vec![i.next(b)],
            Ind::Obv(i) => vec![i.next(b)],
        }
    }

    pub fn reset(&mut self) {
        each!(self, i => i.reset())
    }
    /// `self.clone_from(src)` on the wrapped indicator itself (Clone::clone_from may be overridden by the type);
    /// returns false if the two are of different kinds.
    pub fn clone_from_ind(&mut self, src: &Ind) -> bool {
        match (self, src) {
            (Ind::Sma(a), Ind::Sma(b)) => a.clone_from(b),
            (Ind::Wma(a), Ind::Wma(b)) => a.clone_from(b),
            (Ind::Sd(a), Ind::Sd(b)) => a.clone_from(b),
            (Ind::Mad(a), Ind::Mad(b)) => a.clone_from(b),
            (Ind::Min(a), Ind::Min(b)) => a.clone_from(b),
            (Ind::Max(a), Ind::Max(b)) => a.clone_from(b),
            (Ind::Ema(a), Ind::Ema(b)) => a.clone_from(b),
            (Ind::Tr(a), Ind::Tr(b)) => a.clone_from(b),
            (Ind::Atr(a), Ind::Atr(b)) => a.clone_from(b),
            (Ind::Macd(a), Ind::Macd(b)) => a.clone_from(b),
            (Ind::Ppo(a), Ind::Ppo(b)) => a.clone_from(b),
            (Ind::Rsi(a), Ind::Rsi(b)) => a.clone_from(b),
            (Ind::Fs(a), Ind::Fs(b)) => a.clone_from(b),
            (Ind::Ss(a), Ind::Ss(b)) => a.clone_from(b),
            (Ind::Roc(a), Ind::Roc(b)) => a.clone_from(b),
            (Ind::Er(a), Ind::Er(b)) => a.clone_from(b),
            (Ind::Bb(a), Ind::Bb(b)) => a.clone_from(b),
            (Ind::Kc(a), Ind::Kc(b)) => a.clone_from(b),
            (Ind::Ce(a), Ind::Ce(b)) => a.clone_from(b),
            (Ind::Cci(a), Ind::Cci(b)) => a.clone_from(b),
            (Ind::Mfi(a), Ind::Mfi(b)) => a.clone_from(b),
            (Ind::Obv(a), Ind::Obv(b)) => a.clone_from(b),
            _ => return false,
        }
        true
    }
    pub fn display(&self) -> String {
        each!(self, i => format!("{}", i))
    }
    pub fn debug(&self) -> String {
        each!(self, i => format!("{:?}", i))
    }
    pub fn save(&self) -> Result<Vec<u8>, String> {
        each!(self, i => bincode::serialize(i).map_err(|e| e.to_string()))
    }
    pub fn to_json(&self) -> Result<String, String> {
        each!(self, i => serde_json::to_string(i).map_err(|e| e.to_string()))
    }
    pub fn restore(kind: &str, bytes: &[u8]) -> Result<Ind, String> {
        fn de<T: DeserializeOwned>(b: &[u8]) -> Result<T, String> {
            bincode::deserialize(b).map_err(|e| e.to_string())
        }
        Ok(match kind {
            "SMA" => Ind::Sma(de(bytes)?),
            "WMA" => Ind::Wma(de(bytes)?),
            "SD" => Ind::Sd(de(bytes)?),
            "MAD" => Ind::Mad(de(bytes)?),
            "MIN" => Ind::Min(de(bytes)?),
            "MAX" => Ind::Max(de(bytes)?),
            "EMA" => Ind::Ema(de(bytes)?),
            "TR" => Ind::Tr(de(bytes)?),
            "ATR" => Ind::Atr(de(bytes)?),
            "MACD" => Ind::Macd(de(bytes)?),
            "PPO" => Ind::Ppo(de(bytes)?),
            "RSI" => Ind::Rsi(de(bytes)?),
            "FAST_STOCH" => Ind::Fs(de(bytes)?),
            "SLOW_STOCH" => Ind::Ss(de(bytes)?),
            "ROC" => Ind::Roc(de(bytes)?),
            "ER" => Ind::Er(de(bytes)?),
            "BB" => Ind::Bb(de(bytes)?),
            "KC" => Ind::Kc(de(bytes)?),
            "CE" => Ind::Ce(de(bytes)?),
            "CCI" => Ind::Cci(de(bytes)?),
            "MFI" => Ind::Mfi(de(bytes)?),
            "OBV" => Ind::Obv(de(bytes)?),
            _ => return Err(format!("unknown kind {}", kind)),
        })
    }
    /// impl Period exists for all single-period kinds
    pub fn period(&self) -> Option<usize> {
        match self {
            Ind::Sma(i) => Some(i.period()),
            Ind::Wma(i) => Some(i.period()),
            Ind::Sd(i) => Some(i.period()),
            Ind::Mad(i) => Some(i.period()),
            Ind::Min(i) => Some(i.period()),
            Ind::Max(i) => Some(i.period()),
            Ind::Ema(i) => Some(i.period()),
            Ind::Atr(i) => Some(i.period()),
            Ind::Rsi(i) => Some(i.period()),
            Ind::Fs(i) => Some(i.period()),
            Ind::Roc(i) => Some(i.period()),
            Ind::Er(i) => Some(i.period()),
            Ind::Bb(i) => Some(i.period()),
            Ind::Kc(i) => Some(i.period()),
            Ind::Ce(i) => Some(i.period()),
            Ind::Cci(i) => Some(i.period()),
            Ind::Mfi(i) => Some(i.period()),
            Ind::Tr(_) | Ind::Macd(_) | Ind::Ppo(_) | Ind::Ss(_) | Ind::Obv(_) => None,
        }
    }
    pub fn multiplier(&self) -> Option<f64> {
        match self {
            Ind::Bb(i) => Some(i.multiplier()),
            Ind::Kc(i) => Some(i.multiplier()),
            Ind::Ce(i) => Some(i.multiplier()),
            _ => None,
        }
    }
}

thread_local! {
    /// set when the documented tuple conversion of an output struct (MACD, PPO: (line, signal, histogram); CE: (long, short))
    /// disagrees bit-for-bit with its named fields; the replayer reads and clears it after every call
    pub static TUPLE_MISMATCH: std::cell::Cell<bool> = std::cell::Cell::new(false);
}

fn tuple3(t: (f64, f64, f64), f: [f64; 3]) {
    if t.0.to_bits() != f[0].to_bits() || t.1.to_bits() != f[1].to_bits() || t.2.to_bits() != f[2].to_bits() {
        TUPLE_MISMATCH.with(|c| c.set(true));
    }
}

/// Map raw output fields to the observation vector in the field order of the specification
/// (TaRef): Bollinger bands are observed as average and the two half-widths.
pub fn observe(kind: &str, raw: &[f64]) -> Vec<f64> {
    match kind {
        "BB" => vec![raw[0], raw[1] - raw[0], raw[0] - raw[2]],
        _ => raw.to_vec(),
    }
}
