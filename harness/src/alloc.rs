//! A counting global allocator (C18): live heap bytes of the current thread.
use std::alloc::{GlobalAlloc, Layout, System};
use std::cell::Cell;

thread_local! {
    static LIVE: Cell<i64> = const { Cell::new(0) };
}

pub struct Counting;

unsafe impl GlobalAlloc for Counting {
    unsafe fn alloc(&self, l: Layout) -> *mut u8 {
        let p = System.alloc(l);
        if !p.is_null() {
            let _ = LIVE.try_with(|c| c.set(c.get() + l.size() as i64));
        }
        p
    }
    unsafe fn dealloc(&self, p: *mut u8, l: Layout) {
        System.dealloc(p, l);
        let _ = LIVE.try_with(|c| c.set(c.get() - l.size() as i64));
    }
    unsafe fn realloc(&self, p: *mut u8, l: Layout, new_size: usize) -> *mut u8 {
        let q = System.realloc(p, l, new_size);
        if !q.is_null() {
            let _ = LIVE.try_with(|c| c.set(c.get() + new_size as i64 - l.size() as i64));
        }
        q
    }
}

/// net bytes allocated (and not freed) by this thread so far
pub fn live() -> i64 {
    LIVE.try_with(|c| c.get()).unwrap_or(0)
}
