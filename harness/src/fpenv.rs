//! The floating-point environment of the calling thread (x86-64: MXCSR control bits -- rounding mode, flush-to-zero,
//! denormals-are-zero, exception masks). It is thread-local state that changes the results of every later computation on
//! the thread, so an indicator call that leaves it changed has created hidden state shared between instances (C05).

#[cfg(target_arch = "x86_64")]
pub fn control() -> u32 {
    let mut v: u32 = 0;
    unsafe {
        std::arch::asm!("stmxcsr [{}]", in(reg) &mut v, options(nostack));
    }
    v & 0xFFC0 // control bits only; the low six bits are sticky exception flags
}

#[cfg(target_arch = "x86_64")]
pub fn restore(v: u32) {
    let w: u32 = v & 0xFFC0;
    unsafe {
        std::arch::asm!("ldmxcsr [{}]", in(reg) &w, options(nostack, readonly));
    }
}

#[cfg(not(target_arch = "x86_64"))]
pub fn control() -> u32 {
    0
}

#[cfg(not(target_arch = "x86_64"))]
pub fn restore(_v: u32) {}
