//! Price units: how a lattice behaviour (integer prices k) becomes an f64 stream x = a*k + b.
//! Volumes are v = av * k_v. `big` is the real magnitude given to the symbolic lattice value BIG.

#[derive(Clone, Copy, Debug)]
pub struct Unit {
    pub a: f64,
    pub b: f64,
    pub av: f64,
    pub big: f64,
    /// signed-zero variant: the lattice value 0 is fed as -0.0 on odd calls (see `price_at`)
    pub nz: bool,
}

pub const BIG: i64 = 1_000_000;

impl Unit {
    pub fn new(a: f64, b: f64) -> Unit {
        Unit { a, b, av: 1.0, big: a * 1.0e6 + b, nz: false }
    }
    /// Affine, except that a warped unit sends the lattice spike 10^6 to an arbitrary larger magnitude.
    /// A warped unit is still strictly monotone, so every fact the specification states about ties,
    /// orderings, flatness and window membership carries over; exact values do not, and are not compared.
    pub fn price(&self, k: i64) -> f64 {
        if self.warped() && k.abs() == BIG {
            return self.big * (k.signum() as f64);
        }
        self.a * (k as f64) + self.b
    }
    /// the price of lattice value k as the t-th input (0-based) of an instance
    pub fn price_at(&self, k: i64, t: u64) -> f64 {
        let x = self.price(k);
        if self.nz && x == 0.0 && t % 2 == 1 {
            -0.0
        } else {
            x
        }
    }
    pub fn warped(&self) -> bool {
        self.big != self.a * 1.0e6 + self.b
    }
    pub fn volume(&self, k: i64) -> f64 {
        self.av * (k as f64)
    }
    pub fn label(&self) -> String {
        format!("a={:e} b={:e} av={:e} big={:e}{}", self.a, self.b, self.av, self.big, if self.nz { " signed-zeros" } else { "" })
    }
}

/// SplitMix64: all randomness in the harness comes from VERIF_SEED through this.
pub struct Rng(pub u64);
impl Rng {
    pub fn next(&mut self) -> u64 {
        self.0 = self.0.wrapping_add(0x9E3779B97F4A7C15);
        let mut z = self.0;
        z = (z ^ (z >> 30)).wrapping_mul(0xBF58476D1CE4E5B9);
        z = (z ^ (z >> 27)).wrapping_mul(0x94D049BB133111EB);
        z ^ (z >> 31)
    }
    pub fn unit_f64(&mut self) -> f64 {
        (self.next() >> 11) as f64 / (1u64 << 53) as f64
    }
    pub fn below(&mut self, n: u64) -> u64 {
        self.next() % n
    }
}

/// kinds whose reference transforms covariantly under a shift of all prices
pub fn shift_ok(kind: &str) -> bool {
    !matches!(kind, "ROC" | "PPO" | "RSI" | "MFI" | "OBV")
}

/// The unit list of a tier. Scale-only units come first; shifted ones are dropped for kinds
/// that are not shift-covariant. RSI is tied to the seed of the model (a = 0.1 / seed).
/// Warped units: only for the relational / range / finiteness / ordering checks (not for exact values).
pub fn warped_units(tier: &str) -> Vec<Unit> {
    let mut v = vec![
        Unit { a: 1.0e-4, b: 0.0, av: 1.0, big: 1.5e4 + 1.0 / 3.0, nz: false },
        Unit { a: 0.3, b: 0.0, av: 0.7, big: 1.0e9 / 3.0, nz: false },
    ];
    if tier == "thorough" {
        v.push(Unit { a: 1.0, b: 0.0, av: 1e9, big: 1.0e17, nz: false });
        v.push(Unit { a: 1.37, b: 0.0, av: 1e-3, big: 43000.0, nz: false });
        v.push(Unit { a: 1e-3, b: 0.0, av: 1.0, big: 1.0e12 / 7.0, nz: false });
    }
    v
}

pub fn unit_list(tier: &str, seed: u64) -> Vec<Unit> {
    let mut v = vec![
        Unit::new(1.0, 0.0),
        Unit::new(0.1, 0.0),
        Unit::new(2f64.powi(-20), 0.0),
        Unit::new(3.0e10, 0.0),
        Unit::new(1.0e-18, 0.0),
        Unit::new(1.0, 1.0e6),
        Unit::new(0.01, 1.0e9),
    ];
    // non-dyadic units, where running sums keep rounding residue (the lattice value 10^6 is the "spike")
    v.push(Unit { a: 1.0e-4, b: 0.0, av: 1.0, big: 1.0e-4 * 1.0e6, nz: false });
    v.push(Unit { a: 0.3, b: 0.0, av: 0.7, big: 0.3 * 1.0e6, nz: false });
    if tier == "thorough" {
        for k in [-100, -70, -40, -30, -10, -3, -1, 1, 2, 5, 10, 24, 40, 60] {
            v.push(Unit::new(2f64.powi(k), 0.0));
        }
        for (a, b) in [(1.0, 3.0), (0.1, 0.7), (1e-3, 1e3), (7.0, -1e5), (1.0, 1e12), (1e6, 1e12), (1e-6, 0.0), (1e12, 0.0)] {
            v.push(Unit::new(a, b));
        }
        v.push(Unit { a: 1.0, b: 0.0, av: 1e9, big: 1.0e6, nz: false });
        v.push(Unit { a: 1.37, b: 0.0, av: 1e-3, big: 1.37 * 1.0e6, nz: false });
        let mut r = Rng(seed ^ 0x5eed);
        for _ in 0..12 {
            let a = 10f64.powf(-3.0 + 9.0 * r.unit_f64());
            let b = if r.below(2) == 0 { 0.0 } else { a * 10f64.powf(6.0 * r.unit_f64()) };
            let mut u = Unit::new(a, b);
            u.av = 10f64.powf(-2.0 + 6.0 * r.unit_f64());
            v.push(u);
        }
    } else {
        let mut r = Rng(seed ^ 0x5eed);
        let a = 10f64.powf(-3.0 + 9.0 * r.unit_f64());
        v.push(Unit::new(a, 0.0));
    }
    v
}
