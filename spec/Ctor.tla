-------------------------------- MODULE Ctor --------------------------------
(***************************************************************************)
(* Constructors, accessors, Display and Default of the 22 indicators (C11) *)
(* as tables over a symbolic period domain: the integers 0..PMax, plus the *)
(* boundary tokens 2^31, 2^32, 2^53+1, usize::MAX-1, usize::MAX (strings,  *)
(* they exceed TLC's 32 bits) for the kinds that allocate no window.       *)
(* Every case is an initial state; TLC enumerates them and prints the      *)
(* expected constructor result, Display text and period() for each.        *)
(***************************************************************************)
EXTENDS TaDim, TLC, Json

CONSTANTS PMax,      \* single-period constructors are enumerated over 0..PMax
          TMax,      \* multi-period constructors over all tuples in (0..TMax)^k
          Sample     \* every Sample-th single period only (1 = all)

VARIABLE case

BigTokens == <<"2147483648", "4294967296", "9007199254740993", "18446744073709551614", "18446744073709551615">>
\* kinds that allocate no window: every positive period up to usize::MAX must be accepted
AllocFree == {"EMA", "ATR", "MACD", "PPO", "RSI", "KC"}

\* multipliers as <<token understood by the harness, text that Rust's Display prints for the f64>>
Mults == {<<"2", "2">>, <<"0", "0">>, <<"-1", "-1">>, <<"0.5", "0.5">>, <<"3", "3">>, <<"NaN", "NaN">>, <<"1000", "1000">>, <<"-0.0", "-0">>,
          \* multipliers that need all 17 significant digits, or lie outside the single-precision range
          <<"2.123456789", "2.123456789">>, <<"0.30000000000000004", "0.30000000000000004">>, <<"inf", "inf">>,
          <<"1e-60", "0.000000000000000000000000000000000000000000000000000000000001">>}
NoMult == <<"", "">>

\* a period argument is a string of decimal digits
PStr(n) == ToString(n)

RECURSIVE Tuples(_, _)
Tuples(k, S) == IF k = 0 THEN {<<>>} ELSE {<<x>> \o t : x \in S, t \in Tuples(k - 1, S)}

PeriodArgs(kind) ==
    LET k == NPeriods(kind) IN
    IF k = 0 THEN {<<>>}
    ELSE IF k = 1 THEN {<<PStr(n)>> : n \in {x \in 0..PMax : x % Sample = 0 \/ x <= 64}}
                       \cup (IF kind \in AllocFree THEN {<<BigTokens[i]>> : i \in 1..5} ELSE {})
    ELSE {[i \in 1..k |-> PStr(t[i])] : t \in Tuples(k, 0..TMax)}
         \cup (IF kind \in AllocFree
               THEN {[i \in 1..k |-> IF i = j THEN BigTokens[b] ELSE "7"] : j \in 1..k, b \in 1..5}
                    \cup {[i \in 1..k |-> IF i = j THEN "0" ELSE BigTokens[5]] : j \in 1..k}
                    \* several huge periods at once (arithmetic across the arguments), with and without a small one
                    \cup {[i \in 1..k |-> BigTokens[b]] : b \in 1..5}
                    \cup {[i \in 1..k |-> IF i = j THEN "9" ELSE BigTokens[b]] : j \in 1..k, b \in {2, 5}}
                    \cup {[i \in 1..k |-> IF i = j THEN "0" ELSE BigTokens[2]] : j \in 1..k}
               ELSE {})

CasesOf(kind) == {[kind |-> kind, per |-> p, mult |-> m] :
                     p \in PeriodArgs(kind), m \in (IF HasMult(kind) THEN Mults ELSE {NoMult})}
Cases == UNION {CasesOf(kind) : kind \in Kinds}

\* Err(InvalidParameter) if and only if at least one period argument is 0
CtorResult(c) == IF \E i \in 1..Len(c.per) : c.per[i] = "0" THEN "InvalidParameter" ELSE "Ok"

RECURSIVE JoinArgs(_)
JoinArgs(s) == IF Len(s) = 0 THEN "" ELSE IF Len(s) = 1 THEN s[1] ELSE s[1] \o ", " \o JoinArgs(Tail(s))

\* NAME(params): EMA(7), BB(10, 3), SLOW_STOCH(10, 2), MACD(12, 26, 9), TRUE_RANGE(), OBV
DisplayText(c) ==
    IF c.kind = "OBV" THEN "OBV"
    ELSE DisplayName(c.kind) \o "(" \o JoinArgs(c.per \o (IF HasMult(c.kind) THEN <<c.mult[2]>> ELSE <<>>)) \o ")"

\* period() exists for the single-period kinds and returns the constructor argument
PeriodOf(c) == IF HasPeriod(c.kind) THEN c.per[1] ELSE ""

Expect(c) == [kind |-> c.kind, per |-> c.per, mult |-> c.mult[1], res |-> CtorResult(c),
              display |-> DisplayText(c), period |-> PeriodOf(c)]

\* Default::default() behaves as new(<documented defaults>)
DefaultCase(kind) == [kind |-> kind, per |-> [i \in 1..Len(DefaultPeriods(kind)) |-> PStr(DefaultPeriods(kind)[i])],
                      mult |-> IF HasMult(kind) THEN <<PStr(DefaultMult(kind)), PStr(DefaultMult(kind))>> ELSE NoMult]

Init == case \in Cases
Next == UNCHANGED case
Spec == Init /\ [][Next]_case

\* emitted once per case (an invariant is evaluated once per distinct state)
EmitCase == PrintT(<<"REPLAY", ToJson(Expect(case))>>)

\* the documented examples, as a sanity check of the tables themselves
ASSUME DisplayText([kind |-> "EMA", per |-> <<"7">>, mult |-> NoMult]) = "EMA(7)"
ASSUME DisplayText([kind |-> "BB", per |-> <<"10">>, mult |-> <<"3", "3">>]) = "BB(10, 3)"
ASSUME DisplayText([kind |-> "SLOW_STOCH", per |-> <<"10", "2">>, mult |-> NoMult]) = "SLOW_STOCH(10, 2)"
ASSUME DisplayText([kind |-> "MACD", per |-> <<"12", "26", "9">>, mult |-> NoMult]) = "MACD(12, 26, 9)"
ASSUME DisplayText([kind |-> "TR", per |-> <<>>, mult |-> NoMult]) = "TRUE_RANGE()"
ASSUME DisplayText([kind |-> "OBV", per |-> <<>>, mult |-> NoMult]) = "OBV"
ASSUME \A k \in Kinds : CtorResult(DefaultCase(k)) = "Ok"
ASSUME PrintT(<<"DEFAULTS", ToJson([k \in Kinds |-> Expect(DefaultCase(k))])>>)
=============================================================================
