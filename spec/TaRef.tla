------------------------------- MODULE TaRef -------------------------------
(***************************************************************************)
(* Reference semantics of the 22 ta-rs indicators: "the documented formula *)
(* evaluated from scratch", in exact rational arithmetic over a lattice of *)
(* integer prices.  Written from the doc comments / property statements,   *)
(* NOT from the Rust code: the state of a kind is the least information    *)
(* the textbook definition needs (the last n or n+1 inputs for windowed    *)
(* kinds, the previous average for exponential ones).                      *)
(*                                                                         *)
(* Inputs:  [ty |-> "s", x |-> k]  or  [ty |-> "b", o, h, l, c, v |-> k]   *)
(* Params:  [n, n2, n3 : Nat, m : Rat (multiplier), seed : Rat (RSI seed)] *)
(* Output of a step: [s |-> state', f |-> <<fields>>, den |-> Rat,         *)
(*                    dend |-> dim, deg |-> BOOLEAN, lo |-> Rat, hi |-> Rat]*)
(*   field = [k |-> name, r |-> Rat | UNDEF | OVF, dim, cls]               *)
(*   dim  in {"level","spread","var","ratio","vol"}: how the value moves   *)
(*        under a change of price unit x |-> a*x + b  (C14)                *)
(*   cls  in {"exact","tau","tauvar","cond","none"}: comparison class      *)
(*   den  the reference denominator whose size conditions the formula      *)
(*        (C03/C07/C17): UNDEF when the step has none, <<0,1>> when it is  *)
(*        zero (the formula is undefined there: C08's business)            *)
(*   deg  the current window is degenerate in the sense of C08             *)
(*   lo,hi  window (or history) minimum / maximum, for C09's mean bounds   *)
(***************************************************************************)
EXTENDS Rat, SequencesExt, FiniteSets

Kinds == {"SMA","WMA","SD","MAD","MIN","MAX","EMA","TR","ATR","MACD","PPO","RSI",
          "FAST_STOCH","SLOW_STOCH","ROC","ER","BB","KC","CE","CCI","MFI","OBV"}

F(k, r, dim, cls) == [k |-> k, r |-> r, dim |-> dim, cls |-> cls]

---------------------------------------------------------------------------
(* input projections: which price a kind reads from a bar (C10) *)
IsBar(in) == in.ty = "b"
Cl(in) == IF IsBar(in) THEN in.c ELSE in.x
Hg(in) == IF IsBar(in) THEN in.h ELSE in.x
Lw(in) == IF IsBar(in) THEN in.l ELSE in.x
Tp3(in) == Hg(in) + Lw(in) + Cl(in)            \* 3 x typical price, kept integral

\* the scalar a single-series kind consumes
Scalar(kind, in) == IF kind = "MIN" THEN Lw(in) ELSE IF kind = "MAX" THEN Hg(in) ELSE Cl(in)

\* the effective input: exactly the numbers of a scalar / bar that the kind is documented to read
\* (C10).  Two inputs with the same effective input are indistinguishable to the indicator.
Eff(kind, in) ==
    CASE kind \in {"TR", "ATR", "FAST_STOCH", "SLOW_STOCH", "KC", "CE", "CCI"} -> <<Hg(in), Lw(in), Cl(in)>>
      [] kind = "MFI" -> <<in.h, in.l, in.c, in.v>>
      [] kind = "OBV" -> <<in.c, in.v>>
      [] OTHER -> <<Scalar(kind, in)>>

---------------------------------------------------------------------------
(* sequence helpers *)
LastN(s, n) == IF Len(s) <= n THEN s ELSE SubSeq(s, Len(s) - n + 1, Len(s))
Push(w, x, n) == LastN(Append(w, x), n)
SumS(w)  == FoldLeft(LAMBDA a, x : a + x, 0, w)
SumSq(w) == FoldLeft(LAMBDA a, x : a + x * x, 0, w)
WSum(w)  == FoldLeft(LAMBDA a, i : a + i * w[i], 0, [i \in 1..Len(w) |-> i])
MinS(w)  == FoldLeft(LAMBDA a, x : IF x < a THEN x ELSE a, w[1], w)
MaxS(w)  == FoldLeft(LAMBDA a, x : IF x > a THEN x ELSE a, w[1], w)
AllEq(w) == \A i \in 1..Len(w) : w[i] = w[1]
AbsDevSum(w) == LET L == Len(w)  S == SumS(w)
                IN FoldLeft(LAMBDA a, x : a + Abs(L * x - S), 0, w)        \* = L * sum |x - mean|
PathLen(w) == FoldLeft(LAMBDA a, i : a + Abs(w[i + 1] - w[i]), 0, [i \in 1..(Len(w) - 1) |-> i])

---------------------------------------------------------------------------
(* window statistics of a non-empty integer window.  The integer sums must stay below 2^31; *)
(* where they cannot (a spike such as 10^6 in the window) the value is OVF: no expectation.    *)
MaxAbs(w) == FoldLeft(LAMBDA a, x : IMax(a, Abs(x)), 0, w)
Mean(w)   == Norm(SumS(w), Len(w))
TooBig(w, lim) == Len(w) >= 46340 \/ MaxAbs(w) >= lim \div (Len(w) * Len(w))      \* Len^2 * MaxAbs >= lim, without overflowing
WMean(w)  == IF TooBig(w, 1000000000) THEN OVF
             ELSE Norm(WSum(w), (Len(w) * (Len(w) + 1)) \div 2)     \* newest (last) heaviest
PVar(w)   == IF MaxAbs(w) >= 46340 \div Len(w) THEN OVF                 \* population variance
             ELSE Norm(Len(w) * SumSq(w) - SumS(w) * SumS(w), Len(w) * Len(w))
MADev(w)  == IF TooBig(w, 500000000) THEN OVF
             ELSE Norm(AbsDevSum(w), Len(w) * Len(w))

---------------------------------------------------------------------------
(* exponential average: first input copied, then a*x + (1-a)*prev, a = 2/(n+1) *)
EmaInit == [new |-> TRUE, v |-> RZero]
EmaStep(e, n, x) ==     \* x : Rat
    IF e.new THEN [new |-> FALSE, v |-> x]
    ELSE [new |-> FALSE,
          v |-> RDiv(RAdd(RScale(2, x), RScale(n - 1, e.v)), RI(n + 1))]

\* the same value from scratch, as one sum over the whole history h (ints), t = Len(h) >= 1:
\*   e_t = ( sum_{j=0}^{t-2} 2 (n-1)^j (n+1)^(t-2-j) x_(t-j)  +  (n-1)^(t-1) x_1 ) / (n+1)^(t-1)
RECURSIVE Pow(_, _)
Pow(b, e) == IF e = 0 THEN 1 ELSE b * Pow(b, e - 1)
EmaClosed(h, n) ==
    LET t == Len(h)
        num == FoldLeft(LAMBDA a, j : a + 2 * Pow(n - 1, j) * Pow(n + 1, t - 2 - j) * h[t - j],
                        0, [j \in 1..(t - 1) |-> j - 1])
               + Pow(n - 1, t - 1) * h[1]
    IN Norm(num, Pow(n + 1, t - 1))

---------------------------------------------------------------------------
(* true range on (h, l, c) with optional previous close *)
TrInit == [has |-> FALSE, pc |-> 0]
TrVal(s, in) == IF s.has THEN IMax(IMax(Hg(in) - Lw(in), Abs(Hg(in) - s.pc)), Abs(Lw(in) - s.pc))
                ELSE Hg(in) - Lw(in)
TrNext(s, in) == [has |-> TRUE, pc |-> Cl(in)]

---------------------------------------------------------------------------
(* flat-run bookkeeping for the kinds with unbounded memory: number of most *)
(* recent inputs that are one and the same one-price input (capped)         *)
OnePrice(in) == Hg(in) = Lw(in) /\ Hg(in) = Cl(in)
FlatCap == 3
FlatInit == [run |-> 0, px |-> 0]
FlatStep(fl, in) ==
    IF OnePrice(in) /\ fl.run > 0 /\ fl.px = Cl(in) THEN [run |-> IMin(fl.run + 1, FlatCap), px |-> fl.px]
    ELSE IF OnePrice(in) THEN [run |-> 1, px |-> Cl(in)]
    ELSE [run |-> 0, px |-> 0]

---------------------------------------------------------------------------
RefInit(kind, p) ==
    CASE kind \in {"SMA","WMA","SD","MAD","MIN","MAX","BB","ROC","ER"} -> [w |-> <<>>]
      [] kind = "FAST_STOCH" -> [wh |-> <<>>, wl |-> <<>>]
      [] kind = "EMA"  -> [e |-> EmaInit, h |-> <<>>, lo |-> 0, hi |-> 0, fl |-> FlatInit]
      [] kind = "TR"   -> [tr |-> TrInit, fl |-> FlatInit]
      [] kind = "ATR"  -> [tr |-> TrInit, e |-> EmaInit, fl |-> FlatInit]
      [] kind \in {"MACD","PPO"} -> [f |-> EmaInit, s |-> EmaInit, g |-> EmaInit, fl |-> FlatInit]
      [] kind = "RSI"  -> [new |-> TRUE, pv |-> 0, u |-> EmaInit, d |-> EmaInit, gmax |-> p.seed, fl |-> FlatInit]
      [] kind = "SLOW_STOCH" -> [wh |-> <<>>, wl |-> <<>>, e |-> EmaInit]
      [] kind = "KC"   -> [tr |-> TrInit, a |-> EmaInit, e |-> EmaInit, fl |-> FlatInit]
      [] kind = "CE"   -> [tr |-> TrInit, a |-> EmaInit, wh |-> <<>>, wl |-> <<>>, fl |-> FlatInit]
      [] kind = "CCI"  -> [w |-> <<>>, b |-> <<>>]      \* w: 3 x typical prices, b: the (h, l, c) they came from
      [] kind = "MFI"  -> [w |-> <<>>, mx |-> 0]           \* w : <<tp3, v>> pairs, last n+1
      [] kind = "OBV"  -> [obv |-> 0, pc |-> 0, vmax |-> 0]

O(s, f, den, dend, deg, lo, hi) ==
    [s |-> s, f |-> f, den |-> den, dend |-> dend, deg |-> deg, lo |-> lo, hi |-> hi,
     \* ts: the expectation depends on a tie between DERIVED values (sums of different inputs), which only
     \* survives a change of price unit that is exact (a power of two, no shift)
     ts |-> FALSE]
NoDen == UNDEF

\* 100 * (c - lo) / (hi - lo), 50 on a zero range
Stoch(c, lo, hi) == IF hi = lo THEN RI(50) ELSE Pct(c - lo, hi - lo)

RefStep(kind, p, s, in) ==
  CASE kind = "SMA" ->
        LET w == Push(s.w, Cl(in), p.n) IN
        O([w |-> w], <<F("out", Mean(w), "level", "tau")>>, NoDen, "ratio", AllEq(w), RI(MinS(w)), RI(MaxS(w)))
    [] kind = "WMA" ->
        LET w == Push(s.w, Cl(in), p.n) IN
        O([w |-> w], <<F("out", WMean(w), "level", "tau")>>, NoDen, "ratio", AllEq(w), RI(MinS(w)), RI(MaxS(w)))
    [] kind = "SD" ->
        LET w == Push(s.w, Cl(in), p.n) IN
        O([w |-> w], <<F("out", PVar(w), "var", "tauvar")>>, NoDen, "ratio", AllEq(w), RI(MinS(w)), RI(MaxS(w)))
    [] kind = "MAD" ->
        LET w == Push(s.w, Cl(in), p.n) IN
        O([w |-> w], <<F("out", MADev(w), "spread", "tau")>>, NoDen, "ratio", AllEq(w), RI(MinS(w)), RI(MaxS(w)))
    [] kind = "MIN" ->
        LET w == Push(s.w, Lw(in), p.n) IN
        O([w |-> w], <<F("out", RI(MinS(w)), "level", "exact")>>, NoDen, "ratio", AllEq(w), RI(MinS(w)), RI(MaxS(w)))
    [] kind = "MAX" ->
        LET w == Push(s.w, Hg(in), p.n) IN
        O([w |-> w], <<F("out", RI(MaxS(w)), "level", "exact")>>, NoDen, "ratio", AllEq(w), RI(MinS(w)), RI(MaxS(w)))
    [] kind = "BB" ->
        LET w == Push(s.w, Cl(in), p.n)
            hv == RMul(RMul(p.m, RAbs(p.m)), PVar(w))        \* signed squared half-width m|m| var
        IN
        O([w |-> w], <<F("average", Mean(w), "level", "tau"),
                       F("upper_hw", hv, "var", "tauvar"),
                       F("lower_hw", hv, "var", "tauvar")>>, NoDen, "ratio", AllEq(w), RI(MinS(w)), RI(MaxS(w)))
    [] kind = "EMA" ->
        LET x == Cl(in)
            e == EmaStep(s.e, p.n, RI(x))
            lo == IF s.e.new THEN x ELSE IMin(s.lo, x)
            hi == IF s.e.new THEN x ELSE IMax(s.hi, x)
            fl == FlatStep(s.fl, [ty |-> "s", x |-> x])
        IN O([e |-> e, h |-> Append(s.h, x), lo |-> lo, hi |-> hi, fl |-> fl],
             <<F("out", e.v, "level", "tau")>>, NoDen, "ratio", fl.run >= 2, RI(lo), RI(hi))
    [] kind = "TR" ->
        LET fl == FlatStep(s.fl, in) IN
        O([tr |-> TrNext(s.tr, in), fl |-> fl],
          <<F("out", RI(TrVal(s.tr, in)), "spread", IF fl.run >= 1 /\ (fl.run >= 2 \/ ~s.tr.has) THEN "exact" ELSE "tau")>>,
          NoDen, "ratio", fl.run >= 2 \/ (fl.run = 1 /\ ~s.tr.has), RZero, RZero)
    [] kind = "ATR" ->
        LET e == EmaStep(s.e, p.n, RI(TrVal(s.tr, in)))  fl == FlatStep(s.fl, in) IN
        O([tr |-> TrNext(s.tr, in), e |-> e, fl |-> fl], <<F("out", e.v, "spread", "tau")>>,
          NoDen, "ratio", fl.run >= 2, RZero, RZero)
    \* The output of a multi-valued kind is a sequence of named fields; its ORDER is part of the interface: it is the order of the
    \* documented tuple conversion (`From<...Output> for (f64, f64, f64)`: MACD (macd, signal, histogram), PPO (ppo, signal,
    \* histogram), CE (long, short)); the adapter reads every output through both routes and the replayer compares them bitwise.
    [] kind = "MACD" ->
        LET x == RI(Cl(in))
            f == EmaStep(s.f, p.n, x)   sl == EmaStep(s.s, p.n2, x)
            line == RSub(f.v, sl.v)
            g == EmaStep(s.g, p.n3, line)
            fl == FlatStep(s.fl, [ty |-> "s", x |-> Cl(in)])
        IN O([f |-> f, s |-> sl, g |-> g, fl |-> fl],
             <<F("macd", line, "spread", "tau"), F("signal", g.v, "spread", "tau"),
               F("histogram", RSub(line, g.v), "spread", "tau")>>, NoDen, "ratio", fl.run >= 2, RZero, RZero)
    [] kind = "PPO" ->
        LET x == RI(Cl(in))
            f == EmaStep(s.f, p.n, x)   sl == EmaStep(s.s, p.n2, x)
            line == RScale(100, RDiv(RSub(f.v, sl.v), sl.v))
            g == EmaStep(s.g, p.n3, line)
            fl == FlatStep(s.fl, [ty |-> "s", x |-> Cl(in)])
        IN O([f |-> f, s |-> sl, g |-> g, fl |-> fl],
             <<F("ppo", line, "ratio", "cond"), F("signal", g.v, "ratio", "cond"),
               F("histogram", RSub(line, g.v), "ratio", "cond")>>, sl.v, "level", fl.run >= 2, RZero, RZero)
    [] kind = "RSI" ->
        LET x == Cl(in)
            up == IF s.new THEN p.seed ELSE IF x > s.pv THEN RI(x - s.pv) ELSE RZero
            dn == IF s.new THEN p.seed ELSE IF x > s.pv THEN RZero ELSE RI(s.pv - x)
            u == EmaStep(s.u, p.n, up)   d == EmaStep(s.d, p.n, dn)
            tot == RAdd(u.v, d.v)
            gm == RMax(s.gmax, RMax(up, dn))
            fl == FlatStep(s.fl, [ty |-> "s", x |-> x])
        IN O([new |-> FALSE, pv |-> x, u |-> u, d |-> d, gmax |-> gm, fl |-> fl],
             <<F("out", RScale(100, RDiv(u.v, tot)), "ratio", "cond")>>,
             \* conditioning: largest gain/loss magnitude ever fed to the averages over their sum
             RDiv(tot, gm), "invc", fl.run >= 2, RZero, RI(100))
    [] kind = "FAST_STOCH" ->
        LET wh == Push(s.wh, Hg(in), p.n)   wl == Push(s.wl, Lw(in), p.n)
            lo == MinS(wl)   hi == MaxS(wh)
        IN O([wh |-> wh, wl |-> wl],
             <<F("out", Stoch(Cl(in), lo, hi), "ratio", IF hi = lo THEN "exact" ELSE "cond")>>,
             IF hi = lo THEN NoDen ELSE RI(hi - lo), "spread",
             AllEq(wh) /\ AllEq(wl) /\ wh[1] = wl[1] /\ Cl(in) = wh[1], RZero, RI(100))
    [] kind = "SLOW_STOCH" ->
        LET wh == Push(s.wh, Hg(in), p.n)   wl == Push(s.wl, Lw(in), p.n)
            lo == MinS(wl)   hi == MaxS(wh)
            e == EmaStep(s.e, p.n2, Stoch(Cl(in), lo, hi))
        IN O([wh |-> wh, wl |-> wl, e |-> e], <<F("out", e.v, "ratio", "cond")>>,
             IF hi = lo THEN NoDen ELSE RI(hi - lo), "spread",
             AllEq(wh) /\ AllEq(wl) /\ wh[1] = wl[1] /\ Cl(in) = wh[1], RZero, RI(100))
    [] kind = "ROC" ->
        LET w == Push(s.w, Cl(in), p.n + 1)
            prev == w[1]                       \* x_(t-n), or the first price while fewer exist
        IN O([w |-> w],
             <<F("out", IF prev = 0 THEN UNDEF ELSE Pct(Cl(in) - prev, prev), "ratio",
                 IF Cl(in) = prev THEN "exact" ELSE "cond")>>,
             RI(prev), "level", AllEq(w), RZero, RZero)
    [] kind = "ER" ->
        LET w == Push(s.w, Cl(in), p.n + 1)
            vol == PathLen(w)
        IN O([w |-> w],
             <<F("out", IF Len(w) = 1 THEN (IF Cl(in) = 0 THEN UNDEF ELSE ROne)
                        ELSE IF vol = 0 THEN UNDEF ELSE Norm(Abs(Cl(in) - w[1]), vol), "ratio",
                 IF Len(w) = 1 THEN "exact" ELSE "cond")>>,
             IF Len(w) = 1 THEN NoDen ELSE RI(vol), "spread",
             Len(w) > 1 /\ AllEq(w), RZero, ROne)
    [] kind = "KC" ->
        LET a == EmaStep(s.a, p.n, RI(TrVal(s.tr, in)))
            e == EmaStep(s.e, p.n, Norm(Tp3(in), 3))
            wd == RMul(p.m, a.v)
            fl == FlatStep(s.fl, in)
        IN O([tr |-> TrNext(s.tr, in), a |-> a, e |-> e, fl |-> fl],
             <<F("average", e.v, "level", "tau"), F("upper", RAdd(e.v, wd), "level", "tau"),
               F("lower", RSub(e.v, wd), "level", "tau")>>, NoDen, "ratio", fl.run >= 2, RZero, RZero)
    [] kind = "CE" ->
        LET a == EmaStep(s.a, p.n, RI(TrVal(s.tr, in)))
            wh == Push(s.wh, Hg(in), p.n)   wl == Push(s.wl, Lw(in), p.n)
            wd == RMul(p.m, a.v)
            fl == FlatStep(s.fl, in)
        IN O([tr |-> TrNext(s.tr, in), a |-> a, wh |-> wh, wl |-> wl, fl |-> fl],
             <<F("long", RSub(RI(MaxS(wh)), wd), "level", "tau"),
               F("short", RAdd(RI(MinS(wl)), wd), "level", "tau")>>, NoDen, "ratio", fl.run >= 2,
             RI(MinS(wl)), RI(MaxS(wh)))
    [] kind = "CCI" ->
        LET w == Push(s.w, Tp3(in), p.n)          \* 3 x typical price
            b == Push(s.b, <<Hg(in), Lw(in), Cl(in)>>, p.n)
            tie == \E i \in 2..Len(w) : w[i] = w[i - 1] /\ b[i] # b[i - 1]
            L == Len(w)
            \* (tp - sma) / (0.015 mad) = (L w_t - S)/(3L) / ( (3/200) devsum/(3 L^2) )
            big == TooBig(w, 500000000)
            devsum == IF big THEN 1 ELSE AbsDevSum(w)    \* = 3 L sum |tp - mean|
            out == IF big THEN OVF ELSE IF devsum = 0 THEN RZero
                   ELSE RDiv(Norm(L * w[L] - SumS(w), 3 * L), RMul(<<3, 200>>, Norm(devsum, 3 * L * L)))
        \* a zero deviation is detected through rounded sums: exactly 0 is C08's claim, not C03's
        IN [O([w |-> w, b |-> b], <<F("out", out, "ratio", IF devsum = 0 THEN "neutral" ELSE "cond")>>,
             IF big THEN OVF ELSE Norm(devsum, 3 * L * L), "spread", AllEq(w), RZero, RZero)
            EXCEPT !.ts = tie]
    [] kind = "MFI" ->
        LET w == Push(s.w, <<Tp3(in), in.v, in.h, in.l, in.c>>, p.n + 1)
            L == Len(w)
            idx == [i \in 1..(L - 1) |-> i + 1]
            pos == FoldLeft(LAMBDA a, i : IF w[i][1] > w[i - 1][1] THEN a + w[i][1] * w[i][2] ELSE a, 0, idx)
            neg == FoldLeft(LAMBDA a, i : IF w[i][1] < w[i - 1][1] THEN a + w[i][1] * w[i][2] ELSE a, 0, idx)
            mx == IMax(s.mx, Abs(w[L][1] * w[L][2]))      \* largest single-bar (3 x) money flow since reset
            tie == \E i \in 2..L : w[i][1] = w[i - 1][1] /\ <<w[i][3], w[i][4], w[i][5]>> # <<w[i - 1][3], w[i - 1][4], w[i - 1][5]>>
        IN [O([w |-> w, mx |-> mx],
             <<F("out", IF L = 1 THEN RI(50) ELSE IF pos + neg = 0 THEN UNDEF ELSE RScale(100, Norm(pos, pos + neg)),
                 "ratio", IF L = 1 THEN "exact" ELSE "cond")>>,
             \* den / largest flow since reset: 1/c of the property
             IF L = 1 THEN NoDen ELSE Norm(pos + neg, IMax(mx, 1)), "invc",
             L > 1 /\ pos + neg = 0, RZero, RI(100)) EXCEPT !.ts = tie]
    [] kind = "OBV" ->
        LET c == in.c
            obv == IF c > s.pc THEN s.obv + in.v ELSE IF c < s.pc THEN s.obv - in.v ELSE s.obv
            vm == IMax(s.vmax, Abs(obv))
        IN O([obv |-> obv, pc |-> c, vmax |-> vm], <<F("out", RI(obv), "vol", "tau")>>,
             NoDen, "ratio", in.v = 0 \/ c = s.pc, RZero, RI(vm))     \* degenerate: no volume, or no price change

---------------------------------------------------------------------------
(* C15: every composite a second time, as the composition of the reference semantics of its PUBLIC *)
(* parts (SMA, SD, MAD, EMA, TR, MIN, MAX, FAST_STOCH, ATR), each fed exactly what the documentation *)
(* says it is fed.  PartsStep returns [s |-> parts' states, v |-> <<Rat>>] in the composite's field   *)
(* order; the models check that it agrees with RefStep (invariant PartsAgree in TaSystem).            *)
Composites == {"BB", "SLOW_STOCH", "ATR", "MACD", "PPO", "KC", "CE", "CCI"}
Sc(x) == [ty |-> "s", x |-> x]
PartsInit(kind, p) ==
    CASE kind = "BB"  -> [sma |-> RefInit("SMA", p), sd |-> RefInit("SD", p)]
      [] kind = "SLOW_STOCH" -> [fs |-> RefInit("FAST_STOCH", p), e |-> EmaInit]
      [] kind = "ATR" -> [tr |-> RefInit("TR", p), e |-> EmaInit]
      [] kind \in {"MACD", "PPO"} -> [f |-> EmaInit, s |-> EmaInit, g |-> EmaInit]
      [] kind = "KC"  -> [e |-> EmaInit, tr |-> RefInit("TR", p), a |-> EmaInit]
      [] kind = "CE"  -> [mx |-> RefInit("MAX", p), mn |-> RefInit("MIN", p), tr |-> RefInit("TR", p), a |-> EmaInit]
      [] kind = "CCI" -> [sma |-> RefInit("SMA", p), mad |-> RefInit("MAD", p)]
      [] OTHER -> [none |-> 0]
PartsStep(kind, p, s, in) ==
    CASE kind = "BB" ->
            LET a == RefStep("SMA", p, s.sma, in)  d == RefStep("SD", p, s.sd, in)
                hv == RMul(RMul(p.m, RAbs(p.m)), d.f[1].r)
            IN [s |-> [sma |-> a.s, sd |-> d.s], v |-> <<a.f[1].r, hv, hv>>]
      [] kind = "SLOW_STOCH" ->
            LET f == RefStep("FAST_STOCH", p, s.fs, in)
                e == EmaStep(s.e, p.n2, f.f[1].r)
            IN [s |-> [fs |-> f.s, e |-> e], v |-> <<e.v>>]
      [] kind = "ATR" ->
            LET t == RefStep("TR", p, s.tr, in)
                e == EmaStep(s.e, p.n, t.f[1].r)
            IN [s |-> [tr |-> t.s, e |-> e], v |-> <<e.v>>]
      [] kind = "MACD" ->
            LET x == RI(Cl(in))
                f == EmaStep(s.f, p.n, x)  sl == EmaStep(s.s, p.n2, x)
                line == RSub(f.v, sl.v)
                g == EmaStep(s.g, p.n3, line)
            IN [s |-> [f |-> f, s |-> sl, g |-> g], v |-> <<line, g.v, RSub(line, g.v)>>]
      [] kind = "PPO" ->
            LET x == RI(Cl(in))
                f == EmaStep(s.f, p.n, x)  sl == EmaStep(s.s, p.n2, x)
                line == RMul(RDiv(RSub(f.v, sl.v), sl.v), RI(100))
                g == EmaStep(s.g, p.n3, line)
            IN [s |-> [f |-> f, s |-> sl, g |-> g], v |-> <<line, g.v, RSub(line, g.v)>>]
      [] kind = "KC" ->
            LET e == EmaStep(s.e, p.n, Norm(Tp3(in), 3))
                t == RefStep("TR", p, s.tr, in)
                a == EmaStep(s.a, p.n, t.f[1].r)
                w == RMul(p.m, a.v)
            IN [s |-> [e |-> e, tr |-> t.s, a |-> a], v |-> <<e.v, RAdd(e.v, w), RSub(e.v, w)>>]
      [] kind = "CE" ->
            LET mx == RefStep("MAX", p, s.mx, Sc(in.h))  mn == RefStep("MIN", p, s.mn, Sc(in.l))
                t == RefStep("TR", p, s.tr, in)
                a == EmaStep(s.a, p.n, t.f[1].r)
                w == RMul(p.m, a.v)
            IN [s |-> [mx |-> mx.s, mn |-> mn.s, tr |-> t.s, a |-> a], v |-> <<RSub(mx.f[1].r, w), RAdd(mn.f[1].r, w)>>]
      [] kind = "CCI" ->
            \* SMA and MAD of the typical price; fed 3 x tp (an integer), which cancels in the ratio
            LET tp3 == Tp3(in)
                a == RefStep("SMA", p, s.sma, Sc(tp3))  d == RefStep("MAD", p, s.mad, Sc(tp3))
                mad == d.f[1].r
            IN [s |-> [sma |-> a.s, mad |-> d.s],
                v |-> <<IF mad = RZero THEN RZero ELSE RDiv(RSub(RI(tp3), a.f[1].r), RMul(<<3, 200>>, mad))>>]
      [] OTHER -> [s |-> s, v |-> <<>>]

---------------------------------------------------------------------------
(* Does a state (nested records / sequences of rationals) contain OVF?  The *)
(* models use it as a state constraint.  Only the EMA-type components can.  *)
EmaBad(e) == ~IsVal(e.v)
RefBad(kind, s) ==
    CASE kind = "EMA" -> EmaBad(s.e)
      [] kind = "ATR" -> EmaBad(s.e)
      [] kind \in {"MACD", "PPO"} -> EmaBad(s.f) \/ EmaBad(s.s) \/ EmaBad(s.g)
      [] kind = "RSI" -> EmaBad(s.u) \/ EmaBad(s.d)
      [] kind = "SLOW_STOCH" -> EmaBad(s.e)
      [] kind = "KC" -> EmaBad(s.a) \/ EmaBad(s.e)
      [] kind = "CE" -> EmaBad(s.a)
      [] OTHER -> FALSE
=============================================================================
