------------------------------ MODULE Streams ------------------------------
(***************************************************************************)
(* Intensional long streams (C13).  A schedule is a short sequence of      *)
(* segments [pat |-> <<inputs>>, reps |-> k, ramp |-> d]: the pattern      *)
(* repeated k times, every repetition moved by d price units against the   *)
(* previous one (d = 0: plain repetition; pat of length 1 and d = -1: a    *)
(* strictly falling stream).  StreamAt(t) is the t-th input in closed form, so TLC can state  *)
(* the expected output at step 1 999 999 of a 2*10^6-step stream without   *)
(* taking 2*10^6 steps: for a windowed kind the reference state IS the     *)
(* window of the last Memory(kind, p) inputs (TaRef), hence the expected   *)
(* observation at step t is one RefStep from the state holding             *)
(* WindowAt(t) minus its last element.                                     *)
(***************************************************************************)
EXTENDS TaDim, TLC, Json

CONSTANTS Sched,     \* <<[pat |-> <<input records>>, reps |-> Nat], ...>>
          Kind, P,   \* the indicator under the stream
          Samples,   \* the steps at which the expectation is stated
          ResetAt    \* reset() is called after this many inputs (0: never); later windows start there

\* The schedule is copied into a variable once (Init): TLC re-evaluates an overridden constant at every reference,
\* which made a period-1000 window cost minutes.
VARIABLE sched

SegLen(g) == Len(g.pat) * g.reps
RECURSIVE TotalFrom(_)
TotalFrom(j) == IF j > Len(sched) THEN 0 ELSE SegLen(sched[j]) + TotalFrom(j + 1)
Total == TotalFrom(1)

RECURSIVE SAt(_, _)
MoveIn(in, d) == IF d = 0 THEN in
                 ELSE IF in.ty = "s" THEN [in EXCEPT !.x = @ + d]
                 ELSE [in EXCEPT !.o = @ + d, !.h = @ + d, !.l = @ + d, !.c = @ + d]
SAt(j, r) == LET g == sched[j] IN
             IF r <= SegLen(g)
             THEN MoveIn(g.pat[((r - 1) % Len(g.pat)) + 1], g.ramp * ((r - 1) \div Len(g.pat)))
             ELSE SAt(j + 1, r - SegLen(g))
StreamAt(t) == SAt(1, t)

IMin2(a, b) == IF a < b THEN a ELSE b
\* the window at step t: the last n inputs, but nothing from before a reset
SinceReset(t) == IF ResetAt > 0 /\ t > ResetAt THEN t - ResetAt ELSE t
WindowAt(t, n) == LET k == IMin2(n, SinceReset(t)) IN [i \in 1..k |-> StreamAt(t - k + i)]

\* largest single-bar (3 x) money flow anywhere in the schedule: an upper bound of "since reset" (MFI conditioning)
PatFlow(g) == FoldLeft(LAMBDA a, in : IMax(a, IF in.ty = "b" THEN Abs(Tp3(in) * in.v) ELSE 0), 0, g.pat)
SchedFlow == FoldLeft(LAMBDA a, g : IMax(a, PatFlow(g)), 0, sched)

\* the reference state that holds the window `pre` (all but the newest input of the window at t)
StateOf(pre) ==
    CASE Kind \in {"SMA", "WMA", "SD", "MAD", "MIN", "MAX", "BB", "ROC", "ER"} ->
            [w |-> [i \in 1..Len(pre) |-> Scalar(Kind, pre[i])]]
      [] Kind = "FAST_STOCH" -> [wh |-> [i \in 1..Len(pre) |-> Hg(pre[i])], wl |-> [i \in 1..Len(pre) |-> Lw(pre[i])]]
      [] Kind = "CCI" -> [w |-> [i \in 1..Len(pre) |-> Tp3(pre[i])],
                          b |-> [i \in 1..Len(pre) |-> <<Hg(pre[i]), Lw(pre[i]), Cl(pre[i])>>]]
      [] Kind = "MFI" -> [w |-> [i \in 1..Len(pre) |-> <<Tp3(pre[i]), pre[i].v, pre[i].h, pre[i].l, pre[i].c>>],
                          mx |-> SchedFlow]

Expect(t) ==
    LET win == WindowAt(t, Memory(Kind, P))
        pre == SubSeq(win, 1, Len(win) - 1)
        r == RefStep(Kind, P, StateOf(pre), win[Len(win)])
    IN [t |-> SinceReset(t), at |-> t, taint |-> FALSE, f |-> r.f, den |-> r.den, dend |-> r.dend, deg |-> r.deg, lo |-> r.lo, hi |-> r.hi,
        ts |-> r.ts, e |-> Eff(Kind, win[Len(win)]),
        in |-> win[Len(win)]]          \* the input itself, so that the harness's expansion of the schedule is checked too

ASSUME Memory(Kind, P) > 0

Init == sched = Sched
Next == UNCHANGED sched
\* evaluated once, on the only state
EmitExpect == /\ \A t \in Samples : t >= 1 /\ t <= Total
              /\ \A t \in Samples : PrintT(<<"EXPECT", ToJson(Expect(t))>>)
              /\ PrintT(<<"TOTAL", Total>>)
=============================================================================
