-------------------------------- MODULE Rat --------------------------------
(***************************************************************************)
(* Exact rational arithmetic for TLC (32-bit integers, no reals).          *)
(*                                                                         *)
(* A rational is a pair <<n, d>> with d > 0, reduced.  Two non-values      *)
(* share the shape <<_, 0>>:                                               *)
(*   OVF   = <<0, 0>>  the exact value does not fit TLC's 32-bit integers  *)
(*   UNDEF = <<1, 0>>  the documented formula divides by zero here         *)
(* Every operation propagates them, and every multiplication is guarded,   *)
(* so TLC never aborts with "Overflow when computing ..."; a behaviour     *)
(* whose exact value cannot be represented is pruned (state constraint     *)
(* NoOvf in the models) or its expectation is skipped, never mis-stated.   *)
(***************************************************************************)
EXTENDS Integers, Sequences

OVF   == <<0, 0>>
UNDEF == <<1, 0>>
IsVal(r)   == r[2] # 0
IsOvf(r)   == r[2] = 0 /\ r[1] = 0
IsUndef(r) == r[2] = 0 /\ r[1] = 1

Abs(x) == IF x < 0 THEN -x ELSE x
Sgn(x) == IF x < 0 THEN -1 ELSE IF x > 0 THEN 1 ELSE 0
IMax(a, b) == IF a < b THEN b ELSE a
IMin(a, b) == IF a < b THEN a ELSE b

RECURSIVE Gcd(_, _)
Gcd(a, b) == IF b = 0 THEN a ELSE Gcd(b, a % b)

\* |x * y| stays below 2^30, so that a sum of two such products fits 32 bits
Lim == 1073741823
CanMul(x, y) == x = 0 \/ y = 0 \/ Abs(x) <= Lim \div Abs(y)

\* n / d for integers, d # 0, reduced
Norm(n, d) ==
    IF n = 0 THEN <<0, 1>>
    ELSE LET s == IF d < 0 THEN -1 ELSE 1
             g == Gcd(Abs(n), Abs(d))
         IN  <<(s * n) \div g, (s * d) \div g>>

RI(k)  == <<k, 1>>
RZero  == <<0, 1>>
ROne   == <<1, 1>>

\* worst non-value of two: OVF dominates UNDEF
Bad(a, b) == IF IsOvf(a) \/ IsOvf(b) THEN OVF ELSE UNDEF

RAdd(a, b) ==
    IF ~IsVal(a) \/ ~IsVal(b) THEN Bad(a, b)
    ELSE IF a[2] = b[2] THEN
            (IF Abs(a[1]) <= Lim /\ Abs(b[1]) <= Lim THEN Norm(a[1] + b[1], a[2]) ELSE OVF)
    ELSE IF CanMul(a[1], b[2]) /\ CanMul(b[1], a[2]) /\ CanMul(a[2], b[2])
         THEN Norm(a[1] * b[2] + b[1] * a[2], a[2] * b[2])
         ELSE OVF

RNeg(a) == IF IsVal(a) THEN <<-a[1], a[2]>> ELSE a
RSub(a, b) == RAdd(a, RNeg(b))

RMul(a, b) ==
    IF ~IsVal(a) \/ ~IsVal(b) THEN Bad(a, b)
    ELSE \* cross-reduce first so that products stay small
         LET g1 == Gcd(Abs(a[1]), b[2])
             g2 == Gcd(Abs(b[1]), a[2])
             n1 == a[1] \div IMax(g1, 1)   d2 == b[2] \div IMax(g1, 1)
             n2 == b[1] \div IMax(g2, 1)   d1 == a[2] \div IMax(g2, 1)
         IN IF CanMul(n1, n2) /\ CanMul(d1, d2) THEN Norm(n1 * n2, d1 * d2) ELSE OVF

RInv(a) == IF ~IsVal(a) THEN a ELSE IF a[1] = 0 THEN UNDEF
           ELSE IF a[1] < 0 THEN <<-a[2], -a[1]>> ELSE <<a[2], a[1]>>
RDiv(a, b) == IF ~IsVal(a) \/ ~IsVal(b) THEN Bad(a, b)
              ELSE IF b[1] = 0 THEN UNDEF ELSE RMul(a, RInv(b))

RAbs(a) == IF IsVal(a) THEN <<Abs(a[1]), a[2]>> ELSE a
RSgn(a) == Sgn(a[1])

\* comparisons are only ever applied to values; the guard keeps TLC total
CmpOk(a, b) == IsVal(a) /\ IsVal(b) /\ CanMul(a[1], b[2]) /\ CanMul(b[1], a[2])
RLt(a, b)  == a[1] * b[2] <  b[1] * a[2]
RLeq(a, b) == a[1] * b[2] <= b[1] * a[2]
REq(a, b)  == a = b          \* both reduced
RMax(a, b) == IF ~CmpOk(a, b) THEN Bad(a, b) ELSE IF RLt(a, b) THEN b ELSE a
RMin(a, b) == IF ~CmpOk(a, b) THEN Bad(a, b) ELSE IF RLt(a, b) THEN a ELSE b

\* integer scaling helpers
RScale(k, a) == RMul(RI(k), a)
\* 100 * n / d for integers, d # 0 (OVF where the product would leave 32 bits: a 10^8 spike)
Pct(n, d) == IF CanMul(100, n) THEN Norm(100 * n, d) ELSE OVF
=============================================================================
