------------------------------- MODULE TLAPS --------------------------------

(* Backend pragmas. *)


(***************************************************************************)
(* Each of these pragmas can be cited with a BY or a USE.  The pragma that *)
(* is added to the context of an obligation most recently is the one whose *)
(* effects are triggered.                                                  *)
(***************************************************************************)

(***************************************************************************)
(* The following pragmas should be used only as a last resource.  They are *)
(* dependent upon the particular backend provers, and are unlikely to have *)
(* any effect if the set of backend provers changes.  Moreover, they are   *)
(* meaningless to a reader of the proof.                                   *)
(***************************************************************************)


(**************************************************************************)
(* Backend pragma: use the SMT solver for arithmetic.                     *)
(*                                                                        *)
(* This method exists under this name for historical reasons.             *)
(**************************************************************************)

SimpleArithmetic == TRUE (*{ by (prover:"smt3") }*)


(**************************************************************************)
(* Backend pragma: SMT solver                                             *)
(*                                                                        *)
(* This method translates the proof obligation to SMTLIB2. The supported  *)
(* fragment includes first-order logic, set theory, functions and         *)
(* records.                                                               *)
(* SMT calls the smt-solver with the default timeout of 5 seconds         *)
(* while SMTT(n) calls the smt-solver with a timeout of n seconds.        *)
(*                                                                        *)
(* SMTT also accepts a string argument of the form "rN" to bound the      *)
(* underlying Z3 solver by a deterministic `rlimit` budget instead of a    *)
(* wall-clock timeout, e.g. SMTT("r5"). N is a multiple of a fixed base    *)
(* resource count, so a small readable budget like "r5" is meaningful.     *)
(* Unlike a wall-clock timeout, an `rlimit` budget does not depend on CPU  *)
(* speed or load, so the proof's pass/fail outcome reproduces on any       *)
(* machine and every rerun (for a fixed Z3 build); how long it takes to    *)
(* consume the budget still varies by machine. This is Z3-specific.        *)
(**************************************************************************)

SMT == TRUE (*{ by (prover:"smt3") }*)
SMTT(X) == TRUE (*{ by (prover:"smt3"; timeout:@) }*)


(**************************************************************************)
(* Backend pragma: CVC4 SMT solver                                        *)
(*                                                                        *)
(* These methods translate the proof obligation to SMTLIB2 and call CVC4. *)
(**************************************************************************)

(* The CVC3* methods are here for backward compatibility. They call CVC4. *)
CVC3 == TRUE (*{ by (prover: "cvc33") }*)
CVC3T(X) == TRUE (*{ by (prover:"cvc33"; timeout:@) }*)

CVC4 == TRUE (*{ by (prover: "cvc33") }*)
CVC4T(X) == TRUE (*{ by (prover:"cvc33"; timeout:@) }*)


(**************************************************************************)
(* Backend pragma: Yices SMT solver                                       *)
(*                                                                        *)
(* This method translates the proof obligation to Yices native language.  *)
(**************************************************************************)

Yices == TRUE (*{ by (prover: "yices3") }*)
YicesT(X) == TRUE (*{ by (prover:"yices3"; timeout:@) }*)

(**************************************************************************)
(* Backend pragma: veriT SMT solver                                       *)
(*                                                                        *)
(* This method translates the proof obligation to SMTLIB2 and calls veriT.*)
(**************************************************************************)

veriT == TRUE (*{ by (prover: "verit") }*)
veriTT(X) == TRUE (*{ by (prover:"verit"; timeout:@) }*)

(**************************************************************************)
(* Backend pragma: Zipperposition solver                                  *)
(*                                                                        *)
(* This method translates the proof obligation to TPTP and                *)
(* calls Zipperposition.                                                  *)
(**************************************************************************)

Zipper == TRUE (*{ by (prover: "zipper") }*)
ZipperT(X) == TRUE (*{ by (prover:"zipper"; timeout:@) }*)

(**************************************************************************)
(* Backend pragma: Z3 SMT solver                                          *)
(*                                                                        *)
(* This method translates the proof obligation to SMTLIB2 and calls Z3.   *)
(* Z3 is used by default but you can also explicitly call it.             *)
(* Z3T(n) bounds Z3 by a wall-clock timeout of n seconds, while Z3T("rN")  *)
(* bounds it by a deterministic `rlimit` budget of N base units, which      *)
(* reproduces the same outcome on any machine (see SMTT).                   *)
(**************************************************************************)

Z3 == TRUE (*{ by (prover: "z33") }*)
Z3T(X) == TRUE (*{ by (prover:"z33"; timeout:@) }*)

(**************************************************************************)
(* Backend pragma: SPASS superposition prover                             *)
(*                                                                        *)
(* This method translates the proof obligation to the DFG format language *)
(* supported by the ATP SPASS. The translation is based on the SMT one.   *)
(**************************************************************************)

Spass == TRUE (*{ by (prover: "spass") }*)
SpassT(X) == TRUE (*{ by (prover:"spass"; timeout:@) }*)

(**************************************************************************)
(* Backend pragma: The PTL propositional linear time temporal logic       *)
(* prover.  It currently is the LS4 backend.                              *)
(*                                                                        *)
(* This method translates the negetation of the proof obligation to       *)
(* Seperated Normal Form (TRP++ format) and checks for unsatisfiability   *)
(**************************************************************************)

LS4 == TRUE (*{ by (prover: "ls4") }*)
LS4T(X) == TRUE (*{ by (prover: "ls4"; timeout:@) }*)
PTL == TRUE (*{ by (prover: "ls4") }*)

(**************************************************************************)
(* Backend pragma: Zenon with different timeouts (default is 10 seconds)  *)
(*                                                                        *)
(**************************************************************************)

Zenon == TRUE (*{ by (prover:"zenon") }*)
ZenonT(X) == TRUE (*{ by (prover:"zenon"; timeout:@) }*)

(********************************************************************)
(* Backend pragma: Isabelle with different timeouts and tactics     *)
(*  (default is 30 seconds/auto)                                    *)
(********************************************************************)

Isa == TRUE (*{ by (prover:"isabelle") }*)
IsaT(X) ==  TRUE (*{ by (prover:"isabelle"; timeout:@) }*)
IsaM(X) ==  TRUE (*{ by (prover:"isabelle"; tactic:@) }*)
IsaMT(X,Y) ==  TRUE (*{ by (prover:"isabelle"; tactic:@; timeout:@) }*)

(***************************************************************************)
(* The following theorem expresses the (useful implication of the) law of  *)
(* set extensionality, which can be written as                             *)
(*                                                                         *)
(*    THEOREM  \A S, T : (S = T) <=> (\A x : (x \in S) <=> (x \in T))      *)
(*                                                                         *)
(* Theorem SetExtensionality is sometimes required by the SMT backend for  *)
(* reasoning about sets. It is usually counterproductive to include        *)
(* theorem SetExtensionality in a BY clause for the Zenon or Isabelle      *)
(* backends. Instead, use the pragma IsaWithSetExtensionality to instruct  *)
(* the Isabelle backend to use the rule of set extensionality.             *)
(***************************************************************************)
IsaWithSetExtensionality == TRUE
           (*{ by (prover:"isabelle"; tactic:"(auto intro: setEqualI)")}*)

THEOREM SetExtensionality == \A S,T : (\A x : x \in S <=> x \in T) => S = T
OBVIOUS

(***************************************************************************)
(* The following theorem is needed to deduce NotInSetS \notin SetS from    *)
(* the definition                                                          *)
(*                                                                         *)
(*   NotInSetS == CHOOSE v : v \notin SetS                                 *)
(***************************************************************************)
THEOREM NoSetContainsEverything == \A S : \E x : x \notin S
OBVIOUS (*{by (isabelle "(auto intro: inIrrefl)")}*)
-----------------------------------------------------------------------------



(********************************************************************)
(********************************************************************)
(********************************************************************)


(********************************************************************)
(* Old versions of Zenon and Isabelle pragmas below                 *)
(* (kept for compatibility)                                         *)
(********************************************************************)


(**************************************************************************)
(* Backend pragma: Zenon with different timeouts (default is 10 seconds)  *)
(*                                                                        *)
(**************************************************************************)

SlowZenon == TRUE (*{ by (prover:"zenon"; timeout:20) }*)
SlowerZenon == TRUE (*{ by (prover:"zenon"; timeout:40) }*)
VerySlowZenon == TRUE (*{ by (prover:"zenon"; timeout:80) }*)
SlowestZenon == TRUE (*{ by (prover:"zenon"; timeout:160) }*)



(********************************************************************)
(* Backend pragma: Isabelle's automatic search ("auto")             *)
(*                                                                  *)
(* This pragma bypasses Zenon. It is useful in situations involving *)
(* essentially simplification and equational reasoning.             *)
(* Default imeout for all isabelle tactics is 30 seconds.           *)
(********************************************************************)
Auto == TRUE (*{ by (prover:"isabelle"; tactic:"auto") }*)
SlowAuto == TRUE (*{ by (prover:"isabelle"; tactic:"auto"; timeout:120) }*)
SlowerAuto == TRUE (*{ by (prover:"isabelle"; tactic:"auto"; timeout:480) }*)
SlowestAuto == TRUE (*{ by (prover:"isabelle"; tactic:"auto"; timeout:960) }*)

(********************************************************************)
(* Backend pragma: Isabelle's "force" tactic                        *)
(*                                                                  *)
(* This pragma bypasses Zenon. It is useful in situations involving *)
(* quantifier reasoning.                                            *)
(********************************************************************)
Force == TRUE (*{ by (prover:"isabelle"; tactic:"force") }*)
SlowForce == TRUE (*{ by (prover:"isabelle"; tactic:"force"; timeout:120) }*)
SlowerForce == TRUE (*{ by (prover:"isabelle"; tactic:"force"; timeout:480) }*)
SlowestForce == TRUE (*{ by (prover:"isabelle"; tactic:"force"; timeout:960) }*)

(***********************************************************************)
(* Backend pragma: Isabelle's "simplification" tactics                 *)
(*                                                                     *)
(* These tactics simplify the goal before running one of the automated *)
(* tactics. They are often necessary for obligations involving record  *)
(* or tuple projections. Use the SimplfyAndSolve tactic unless you're  *)
(* sure you can get away with just Simplification                      *)
(***********************************************************************)
SimplifyAndSolve        == TRUE
    (*{ by (prover:"isabelle"; tactic:"clarsimp auto?") }*)
SlowSimplifyAndSolve    == TRUE
    (*{ by (prover:"isabelle"; tactic:"clarsimp auto?"; timeout:120) }*)
SlowerSimplifyAndSolve  == TRUE
    (*{ by (prover:"isabelle"; tactic:"clarsimp auto?"; timeout:480) }*)
SlowestSimplifyAndSolve == TRUE
    (*{ by (prover:"isabelle"; tactic:"clarsimp auto?"; timeout:960) }*)

Simplification == TRUE (*{ by (prover:"isabelle"; tactic:"clarsimp") }*)
SlowSimplification == TRUE
    (*{ by (prover:"isabelle"; tactic:"clarsimp"; timeout:120) }*)
SlowerSimplification  == TRUE
    (*{ by (prover:"isabelle"; tactic:"clarsimp"; timeout:480) }*)
SlowestSimplification == TRUE
    (*{ by (prover:"isabelle"; tactic:"clarsimp"; timeout:960) }*)

(**************************************************************************)
(* Backend pragma: Isabelle's tableau prover ("blast")                    *)
(*                                                                        *)
(* This pragma bypasses Zenon and uses Isabelle's built-in theorem        *)
(* prover, Blast. It is almost never better than Zenon by itself, but     *)
(* becomes very useful in combination with the Auto pragma above. The     *)
(* AutoBlast pragma first attempts Auto and then uses Blast to prove what *)
(* Auto could not prove. (There is currently no way to use Zenon on the   *)
(* results left over from Auto.)                                          *)
(**************************************************************************)
Blast == TRUE (*{ by (prover:"isabelle"; tactic:"blast") }*)
SlowBlast == TRUE (*{ by (prover:"isabelle"; tactic:"blast"; timeout:120) }*)
SlowerBlast == TRUE (*{ by (prover:"isabelle"; tactic:"blast"; timeout:480) }*)
SlowestBlast == TRUE (*{ by (prover:"isabelle"; tactic:"blast"; timeout:960) }*)

AutoBlast == TRUE (*{ by (prover:"isabelle"; tactic:"auto, blast") }*)


(**************************************************************************)
(* Backend pragmas: multi-back-ends                                       *)
(*                                                                        *)
(* These pragmas just run a bunch of back-ends one after the other in the *)
(* hope that one will succeed. This saves time and effort for the user at *)
(* the expense of computation time.                                       *)
(**************************************************************************)

(* CVC3 goes first because it's bundled with TLAPS, then the other SMT
   solvers are unlikely to succeed if CVC3 fails, so we run zenon and
   Isabelle before them. *)
AllProvers == TRUE (*{
    by (prover:"cvc33")
    by (prover:"zenon")
    by (prover:"isabelle"; tactic:"auto")
    by (prover:"spass")
    by (prover:"smt3")
    by (prover:"yices3")
    by (prover:"verit")
    by (prover:"z33")
    by (prover:"isabelle"; tactic:"force")
    by (prover:"isabelle"; tactic:"(auto intro: setEqualI)")
    by (prover:"isabelle"; tactic:"clarsimp auto?")
    by (prover:"isabelle"; tactic:"clarsimp")
    by (prover:"isabelle"; tactic:"auto, blast")
  }*)
AllProversT(X) == TRUE (*{
    by (prover:"cvc33"; timeout:@)
    by (prover:"zenon"; timeout:@)
    by (prover:"isabelle"; tactic:"auto"; timeout:@)
    by (prover:"spass"; timeout:@)
    by (prover:"smt3"; timeout:@)
    by (prover:"yices3"; timeout:@)
    by (prover:"verit"; timeout:@)
    by (prover:"z33"; timeout:@)
    by (prover:"isabelle"; tactic:"force"; timeout:@)
    by (prover:"isabelle"; tactic:"(auto intro: setEqualI)"; timeout:@)
    by (prover:"isabelle"; tactic:"clarsimp auto?"; timeout:@)
    by (prover:"isabelle"; tactic:"clarsimp"; timeout:@)
    by (prover:"isabelle"; tactic:"auto, blast"; timeout:@)
  }*)

AllSMT == TRUE (*{
    by (prover:"cvc33")
    by (prover:"smt3")
    by (prover:"yices3")
    by (prover:"verit")
    by (prover:"z33")
  }*)
AllSMTT(X) == TRUE (*{
    by (prover:"cvc33"; timeout:@)
    by (prover:"smt3"; timeout:@)
    by (prover:"yices3"; timeout:@)
    by (prover:"verit"; timeout:@)
    by (prover:"z33"; timeout:@)
  }*)

AllIsa == TRUE (*{
    by (prover:"isabelle"; tactic:"auto")
    by (prover:"isabelle"; tactic:"force")
    by (prover:"isabelle"; tactic:"(auto intro: setEqualI)")
    by (prover:"isabelle"; tactic:"clarsimp auto?")
    by (prover:"isabelle"; tactic:"clarsimp")
    by (prover:"isabelle"; tactic:"auto, blast")
  }*)
AllIsaT(X) == TRUE (*{
    by (prover:"isabelle"; tactic:"auto"; timeout:@)
    by (prover:"isabelle"; tactic:"force"; timeout:@)
    by (prover:"isabelle"; tactic:"(auto intro: setEqualI)"; timeout:@)
    by (prover:"isabelle"; tactic:"clarsimp auto?"; timeout:@)
    by (prover:"isabelle"; tactic:"clarsimp"; timeout:@)
    by (prover:"isabelle"; tactic:"auto, blast"; timeout:@)
  }*)


(**************************************************************************)
(* The pragma ExpandEnabled invokes expansion of the operator ENABLED.    *)
(*                                                                        *)
(* The pragma ExpandCdot invokes expansion of the operator \cdot.         *)
(*                                                                        *)
(* The pragma AutoUSE invokes automated expansion of definitions,         *)
(* for both of ExpandEnabled and ExpandCdot, when each is present.        *)
(*                                                                        *)
(* The pragma Lambdify invokes expansion of the operators                 *)
(* ENABLED and \cdot to an intermediate form with bound VARIABLES,        *)
(* which is a form before introducing rigid quantifiers.                  *)
(* The pragma Lambdify is sound for occurrences of ENABLED and \cdot      *)
(* that are not nested.                                                   *)
(**************************************************************************)
ExpandENABLED == TRUE  (*{ by (prover:"expandenabled") }*)
ExpandCdot == TRUE  (*{ by (prover:"expandcdot") }*)
AutoUSE == TRUE  (*{ by (prover:"autouse") }*)
Lambdify == TRUE  (*{ by (prover:"lambdify") }*)
ENABLEDaxioms == TRUE  (*{ by (prover:"enabledaxioms") }*)
LevelComparison == TRUE  (*{ by (prover:"levelcomparison") }*)

(* The operators EnabledWrapper and CdotWrapper occur in an intermediate  *)
(* representation within TLAPM.                                           *)
EnabledWrapper(Op(_)) == FALSE
CdotWrapper(Op(_)) == FALSE

(***************************************************************************)
(* The following may be used in a `BY ONLY ThmName` for unit testing the   *)
(* triviality checks in TLAPM.                                             *)
(***************************************************************************)
Trivial == TRUE  (*{ by (prover:"trivial") }*)


=============================================================================

The material below is obsolete: the TLA proof rules below are superseded by
the PTL decision procedure, and their formulation is unsound for the semantics
of temporal reasoning that TLAPS adopts.

----------------------------------------------------------------------------
(***************************************************************************)
(*                           TEMPORAL LOGIC                                *)
(*                                                                         *)
(* The following rules are intended to be used when TLAPS handles temporal *)
(* logic.  They will not work now.  Moreover when temporal reasoning is    *)
(* implemented, these rules may be changed or omitted, and additional      *)
(* rules will probably be added.  However, they are included mainly so     *)
(* their names will be defined, preventing the use of identifiers that are *)
(* likely to produce name clashes with future versions of this module.     *)
(***************************************************************************)


(***************************************************************************)
(* The following proof rules (and their names) are from the paper "The     *)
(* Temporal Logic of Actions".                                             *)
(***************************************************************************)
THEOREM RuleTLA1 == ASSUME STATE P, STATE f,
                           P /\ (f' = f) => P'
                    PROVE  []P <=> P /\ [][P => P']_f

THEOREM RuleTLA2 == ASSUME STATE P, STATE Q, STATE f, STATE g,
                           ACTION A, ACTION B,
                           P /\ [A]_f => Q /\ [B]_g
                    PROVE  []P /\ [][A]_f => []Q /\ [][B]_g

THEOREM RuleINV1 == ASSUME STATE I, STATE F,  ACTION N,
                           I /\ [N]_F => I'
                    PROVE  I /\ [][N]_F => []I

THEOREM RuleINV2 == ASSUME STATE I, STATE f, ACTION N
                    PROVE  []I => ([][N]_f <=> [][N /\ I /\ I']_f)

THEOREM RuleWF1 == ASSUME STATE P, STATE Q, STATE f, ACTION N, ACTION A,
                          P /\ [N]_f => (P' \/ Q'),
                          P /\ <<N /\ A>>_f => Q',
                          P => ENABLED <<A>>_f
                   PROVE  [][N]_f /\ WF_f(A) => (P ~> Q)

THEOREM RuleSF1 == ASSUME STATE P, STATE Q, STATE f,
                          ACTION N, ACTION A, TEMPORAL F,
                          P /\ [N]_f => (P' \/ Q'),
                          P /\ <<N /\ A>>_f => Q',
                          []P /\ [][N]_f /\ []F => <> ENABLED <<A>>_f
                   PROVE  [][N]_f /\ SF_f(A) /\ []F => (P ~> Q)

(***************************************************************************)
(* The rules WF2 and SF2 in "The Temporal Logic of Actions" are obtained   *)
(* from the following two rules by the following substitutions: `.         *)
(*                                                                         *)
(*          ___        ___         _______________                         *)
(*      M <- M ,   g <- g ,  EM <- ENABLED <<M>>_g       .'                *)
(***************************************************************************)
THEOREM RuleWF2 == ASSUME STATE P, STATE f, STATE g, STATE EM,
                          ACTION A, ACTION B, ACTION N, ACTION M,
                          TEMPORAL F,
                          <<N /\ B>>_f => <<M>>_g,
                          P /\ P' /\ <<N /\ A>>_f /\ EM => B,
                          P /\ EM => ENABLED A,
                          [][N /\ ~B]_f /\ WF_f(A) /\ []F /\ <>[]EM => <>[]P
                   PROVE  [][N]_f /\ WF_f(A) /\ []F => []<><<M>>_g \/ []<>(~EM)

THEOREM RuleSF2 == ASSUME STATE P, STATE f, STATE g, STATE EM,
                          ACTION A, ACTION B, ACTION N, ACTION M,
                          TEMPORAL F,
                          <<N /\ B>>_f => <<M>>_g,
                          P /\ P' /\ <<N /\ A>>_f /\ EM => B,
                          P /\ EM => ENABLED A,
                          [][N /\ ~B]_f /\ SF_f(A) /\ []F /\ []<>EM => <>[]P
                   PROVE  [][N]_f /\ SF_f(A) /\ []F => []<><<M>>_g \/ <>[](~EM)


(***************************************************************************)
(* The following rule is a special case of the general temporal logic      *)
(* proof rule STL4 from the paper "The Temporal Logic of Actions".  The    *)
(* general rule is for arbitrary temporal formulas F and G, but it cannot  *)
(* yet be handled by TLAPS.                                                *)
(***************************************************************************)
THEOREM RuleInvImplication ==
  ASSUME STATE F, STATE G,
         F => G
  PROVE  []F => []G
PROOF OMITTED

(***************************************************************************)
(* The following rule is a special case of rule TLA2 from the paper "The   *)
(* Temporal Logic of Actions".                                             *)
(***************************************************************************)
THEOREM RuleStepSimulation ==
  ASSUME STATE I, STATE f, STATE g,
         ACTION M, ACTION N,
         I /\ I' /\ [M]_f => [N]_g
  PROVE  []I /\ [][M]_f => [][N]_g
PROOF OMITTED

(***************************************************************************)
(* The following may be used to invoke a decision procedure for            *)
(* propositional temporal logic.                                           *)
(***************************************************************************)
PropositionalTemporalLogic == TRUE
=============================================================================
