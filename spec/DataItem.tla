------------------------------ MODULE DataItem ------------------------------
(***************************************************************************)
(* The DataItem builder as a state machine (C16).                          *)
(*                                                                         *)
(* Five slots open/high/low/close/volume, each None or a value.  Values    *)
(* are indices into the ten-point float lattice                            *)
(*   0:-inf 1:-2 2:-1 3:-0.0 4:+0.0 5:1 6:2 7:3 8:+inf 9:NaN               *)
(* ordered as IEEE-754 orders them (-0.0 = +0.0 numerically, NaN           *)
(* unordered), or -- in IntMode -- plain integers (finite tuples chosen by *)
(* the driver).  Actions: Set(field, value) (last call wins) and the       *)
(* observation Build.  `path` is a history variable (not in the VIEW).     *)
(***************************************************************************)
EXTENDS Integers, Sequences, TLC, Json

CONSTANTS Vals,      \* the values a setter may be called with
          IntMode,   \* TRUE: values are integers; FALSE: indices into the float lattice
          MaxPath    \* bound on the number of setter calls (repeated setters lengthen paths)

VARIABLES slots,     \* [1..5 -> Vals \cup {None}] in the order open, high, low, close, volume
          path       \* the setter calls so far: <<field, value>> pairs

None == -1000000
Fields == 1..5
O == 1  H == 2  L == 3  C == 4  V == 5

NaNIdx == 9
Rank(v) == IF IntMode THEN v
           ELSE CASE v = 0 -> 0 [] v = 1 -> 1 [] v = 2 -> 2 [] v = 3 -> 3 [] v = 4 -> 3
                  [] v = 5 -> 4 [] v = 6 -> 5 [] v = 7 -> 6 [] v = 8 -> 7 [] OTHER -> 99
IsNaN(v) == ~IntMode /\ v = NaNIdx
\* IEEE <= : false as soon as one side is NaN
Leq(a, b) == ~IsNaN(a) /\ ~IsNaN(b) /\ Rank(a) <= Rank(b)
\* volume >= 0.0 : -0.0 qualifies
NonNegative(v) == ~IsNaN(v) /\ Rank(v) >= (IF IntMode THEN 0 ELSE 3)

Complete(s) == \A f \in Fields : s[f] # None
Consistent(s) ==
    /\ Leq(s[L], s[O]) /\ Leq(s[L], s[C]) /\ Leq(s[L], s[H])
    /\ Leq(s[O], s[H]) /\ Leq(s[C], s[H])
    /\ NonNegative(s[V])

BuildResult(s) == IF ~Complete(s) THEN "DataItemIncomplete"
                  ELSE IF Consistent(s) THEN "Ok" ELSE "DataItemInvalid"

Init == slots = [f \in Fields |-> None] /\ path = <<>>
Set(f, v) == /\ Len(path) < MaxPath
             /\ slots' = [slots EXCEPT ![f] = v]
             /\ path' = Append(path, <<f, v>>)
Next == \E f \in Fields, v \in Vals : Set(f, v)
Spec == Init /\ [][Next]_<<slots, path>>

view == slots

\* properties of the builder's specification itself
\* any NaN field makes a complete item invalid
NaNRejected == (Complete(slots) /\ \E f \in Fields : IsNaN(slots[f])) => BuildResult(slots) = "DataItemInvalid"
\* the result depends on the slots only, not on how they were reached (order, repetition): by construction of `slots`;
\* stated as: the last call for each field in `path` determines the slot
LastWins == \A f \in Fields :
               LET idx == {i \in 1..Len(path) : path[i][1] = f}
               IN IF idx = {} THEN slots[f] = None
                  ELSE slots[f] = path[CHOOSE i \in idx : \A j \in idx : j <= i][2]

\* one behaviour per distinct slot state (evaluated as an invariant: once per new state)
EmitState == PrintT(<<"REPLAY", ToJson([path |-> path, slots |-> slots, res |-> BuildResult(slots), int |-> IntMode])>>)
\* one behaviour per explored transition (alternative orders and repeated setters reaching known states)
EmitTrans == PrintT(<<"REPLAY", ToJson([path |-> path', slots |-> slots', res |-> BuildResult(slots'), int |-> IntMode])>>)
=============================================================================
