------------------------------ MODULE TaTrace ------------------------------
(***************************************************************************)
(* Trace validation (implementation -> specification).                     *)
(*                                                                         *)
(* A driver exercises the real crate on op sequences of ITS choosing       *)
(* (seeded; several instances; real threads) and records one event per     *)
(* public call at the call's return: the op (same shape as TaSystem's ops) *)
(* plus what was observed, as integers and strings only (TLC's JSON reader *)
(* truncates floats):                                                      *)
(*   cls[k]  "fin" | "nan" | "pinf" | "ninf"   class of output field k     *)
(*   q[k]    round(out_k * QScale), or NOQ when that does not fit          *)
(*   lat[k]  the integer k with out_k == k exactly, or NOQ                 *)
(*   res     constructor result ("Ok" | "InvalidParameter"); disp, per     *)
(*           Display text and period() for query events                    *)
(* TLC re-executes TaSystem along the trace: every event must be an        *)
(* enabled action of the specification (TraceNext = Do(event) /\ Matches), *)
(* and the observation must agree with the specification's expectation:    *)
(* defined outputs are finite, exact-class outputs equal the lattice value,*)
(* tau-class outputs agree to 2 / QScale (a coarse but in-spec numeric     *)
(* check; the fine tolerance is applied by the replay direction).          *)
(* Acceptance: all events consumed (POSTCONDITION on the diameter).        *)
(***************************************************************************)
EXTENDS TaSystem, IOUtils

QScale == 65536
NOQ == -2000000000

TraceEvents == ndJsonDeserialize(IOEnv.TRACE)

\* |q / QScale - n / d| <= (2 + slack) / QScale, in guarded integer arithmetic; TRUE when it cannot be evaluated in 32 bits
Close(q, r, slack) ==
    IF q = NOQ \/ ~IsVal(r) THEN TRUE
    ELSE IF ~CanMul(q, r[2]) \/ ~CanMul(r[1], QScale) THEN TRUE
    ELSE Abs(q * r[2] - r[1] * QScale) <= (2 + slack) * r[2]

FieldMatches(e, k, f, taintd) ==
    IF taintd THEN TRUE ELSE
       /\ (IsVal(f.r) => e.cls[k] = "fin")
       /\ ((f.cls = "exact" /\ IsVal(f.r) /\ f.r[2] = 1) => e.lat[k] = f.r[1])
       /\ ((f.cls \in {"exact", "tau"} /\ f.dim \in {"level", "spread", "ratio"}) => Close(e.q[k], f.r, 0))

\* ob: the specification's observation for this event (obs'[Len(obs')])
Matches(e, ob) ==
    CASE e.op \in {"s", "b"} ->
            \* IF, not a disjunction: inside an action TLC would explore both disjuncts
            IF ob.taint THEN TRUE
            ELSE /\ Len(ob.f) = Len(e.cls)
                 /\ \A k \in 1..Len(ob.f) : FieldMatches(e, k, ob.f[k], FALSE)
                 /\ ob.t = e.t                                 \* calls since construction / reset, as the driver counted them
      [] e.op = "save" -> e.len <= ob.bound
      [] OTHER -> TRUE

\* constructor events: Err(InvalidParameter) iff some period argument is 0; a rejected constructor creates nothing
NewOk(e) == e.res = "Ok" /\ \A k \in 1..Len(e.per) : e.per[k] # 0
NewFail(e) == /\ e.op = "newfail"
              /\ e.res = "InvalidParameter"
              /\ \E k \in 1..Len(e.per) : e.per[k] = 0
              /\ Log([op |-> "newfail", i |-> e.i], NoObs)
              /\ UNCHANGED <<inst, blobs>>

\* query events: Display text and period() are functions of the configuration for the whole life of the instance
RECURSIVE JoinInts(_)
JoinInts(s) == IF Len(s) = 0 THEN "" ELSE IF Len(s) = 1 THEN ToString(s[1]) ELSE ToString(s[1]) \o ", " \o JoinInts(Tail(s))
PeriodsOf(I) == IF NPeriods(I.kind) = 0 THEN <<>> ELSE IF NPeriods(I.kind) = 1 THEN <<I.p.n>>
                ELSE IF NPeriods(I.kind) = 2 THEN <<I.p.n, I.p.n2>> ELSE <<I.p.n, I.p.n2, I.p.n3>>
DisplayOf(I, multText) ==
    IF I.kind = "OBV" THEN "OBV"
    ELSE DisplayName(I.kind) \o "(" \o JoinInts(PeriodsOf(I)) \o (IF HasMult(I.kind) THEN ", " \o multText ELSE "") \o ")"
Query(e) == /\ e.op = "query"
            /\ Present(e.i)
            /\ e.disp = DisplayOf(inst[e.i], e.mtext)
            /\ (HasPeriod(inst[e.i].kind) => e.per = inst[e.i].p.n)
            /\ Log([op |-> "query", i |-> e.i], NoObs)
            /\ UNCHANGED <<inst, blobs>>

TraceNext ==
    /\ rest # <<>>
    /\ LET e == Head(rest) IN
         /\ \/ (e.op \notin {"newfail", "query"} /\ Do(e) /\ (e.op = "new" => NewOk(e)))
            \/ NewFail(e)
            \/ Query(e)
         /\ Matches(e, obs'[Len(obs')])
    /\ rest' = Tail(rest)

TraceSpec == Init /\ [][TraceNext]_vars

\* all events consumed: one state per event plus the initial one (the trace is a single path)
TraceAccepted ==
    LET n == Len(TraceEvents) IN
    IF TLCGet("stats").diameter - 1 = n THEN TRUE
    ELSE Print(<<"TRACE-REJECTED at event", TLCGet("stats").diameter, "of", n>>, FALSE)
=============================================================================
