------------------------------- MODULE Cursor -------------------------------
(***************************************************************************)
(* The ring cursor / counter skeleton shared by the windowed indicators,   *)
(* for an ARBITRARY period P >= 1 (C12: no out-of-bounds index, however    *)
(* many calls are made).  TLC checks the transcribed algorithms for the    *)
(* periods it explores; this module proves the index invariant for every   *)
(* period with TLAPS (tlapm Cursor.tla).                                   *)
(*                                                                         *)
(*   index = if index + 1 < period { index + 1 } else { 0 }                *)
(*   count saturates at P (SMA, WMA, SD, MAD, ER, MFI) or at P + 1 (ROC)   *)
(* MFI advances the cursor BEFORE using it; the others after.              *)
(***************************************************************************)
EXTENDS Naturals, TLAPS

CONSTANT P
ASSUME PPos == P \in Nat /\ P >= 1

VARIABLES index, count, rcount
vars == <<index, count, rcount>>

Init == index = 0 /\ count = 0 /\ rcount = 0

Adv(i) == IF i + 1 < P THEN i + 1 ELSE 0

Next == /\ index' = Adv(index)
        /\ count' = IF count < P THEN count + 1 ELSE count             \* saturating counter
        /\ rcount' = IF rcount > P THEN rcount ELSE rcount + 1         \* RateOfChange: saturates at P + 1

Spec == Init /\ [][Next]_vars

\* every slice index used by next() is in range: deque[index], deque[..count], deque[index..count]
Inv == /\ index \in 0..(P - 1)
       /\ count \in 0..P
       /\ rcount \in 0..(P + 1)
       /\ (count < P => index = count)          \* during warm-up the cursor is the fill level
       /\ index <= count                        \* so deque[index..count] is a valid range

THEOREM IndexSafe == Spec => []Inv
<1>1. Init => Inv
  BY PPos DEF Init, Inv
<1>2. Inv /\ [Next]_vars => Inv'
  <2> SUFFICES ASSUME Inv, [Next]_vars PROVE Inv'
    OBVIOUS
  <2>1. CASE Next
    BY <2>1, PPos DEF Inv, Next, Adv
  <2>2. CASE UNCHANGED vars
    BY <2>2 DEF Inv, vars
  <2>3. QED
    BY <2>1, <2>2
<1>3. QED
  BY <1>1, <1>2, PTL DEF Spec

\* MoneyFlowIndex uses the ADVANCED cursor as its slot: Adv(index) is in range whenever index is
THEOREM PreIncrementSafe == ASSUME NEW i \in 0..(P - 1) PROVE Adv(i) \in 0..(P - 1)
  BY PPos DEF Adv
=============================================================================
