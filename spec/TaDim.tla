------------------------------- MODULE TaDim -------------------------------
(***************************************************************************)
(* Facts about the documented interface of the 22 indicators, as tables.   *)
(***************************************************************************)
EXTENDS TaImpl

\* which input shapes a kind accepts: every kind takes bars (Next<&T>); all but
\* CCI, ChandelierExit, MFI and OBV also take scalars (Next<f64>)
BarOnly == {"CE", "CCI", "MFI", "OBV"}
Accepts(kind) == IF kind \in BarOnly THEN {"b"} ELSE {"s", "b"}

\* constructor arity: number of period arguments, and whether a multiplier follows
NPeriods(kind) == CASE kind \in {"TR", "OBV"} -> 0
                    [] kind \in {"MACD", "PPO"} -> 3
                    [] kind = "SLOW_STOCH" -> 2
                    [] OTHER -> 1
HasMult(kind) == kind \in {"BB", "KC", "CE"}
\* impl Period exists for all single-period kinds (CE, CCI, KC, BB included)
HasPeriod(kind) == NPeriods(kind) = 1

DisplayName(kind) == CASE kind = "TR" -> "TRUE_RANGE" [] OTHER -> kind

\* documented defaults: <<periods>>, multiplier numerator (denominator 1)
DefaultPeriods(kind) ==
    CASE kind \in {"EMA", "SMA", "WMA", "SD", "MAD", "ROC", "BB"} -> <<9>>
      [] kind \in {"RSI", "ATR", "ER", "MFI", "MIN", "MAX", "FAST_STOCH"} -> <<14>>
      [] kind = "SLOW_STOCH" -> <<14, 3>>
      [] kind \in {"MACD", "PPO"} -> <<12, 26, 9>>
      [] kind = "CCI" -> <<20>>
      [] kind = "KC" -> <<10>>
      [] kind = "CE" -> <<22>>
      [] OTHER -> <<>>
DefaultMult(kind) == CASE kind = "BB" -> 2 [] kind = "KC" -> 2 [] kind = "CE" -> 3 [] OTHER -> 0

\* how many most recent inputs determine the output (0 = unbounded memory)
Memory(kind, p) ==
    CASE kind \in {"SMA", "WMA", "SD", "MAD", "MIN", "MAX", "FAST_STOCH", "BB", "CCI"} -> p.n
      [] kind \in {"ROC", "ER", "MFI"} -> p.n + 1
      [] OTHER -> 0

\* documented range of the (first) output as <<lo, hi>> rationals, or <<>> if unbounded
DocRange(kind) ==
    CASE kind \in {"RSI", "FAST_STOCH", "SLOW_STOCH", "MFI"} -> <<RZero, RI(100)>>
      [] kind = "ER" -> <<RZero, ROne>>
      [] OTHER -> <<>>

\* bincode size bound of C18
SumPeriods(kind, p) == CASE NPeriods(kind) = 0 -> 0
                         [] NPeriods(kind) = 1 -> p.n
                         [] NPeriods(kind) = 2 -> p.n + p.n2
                         [] OTHER -> p.n + p.n2 + p.n3
SizeBound(kind, p) == 256 + 64 * SumPeriods(kind, p)

\* natural scale of an oscillator (C03): 100, 1, 1/0.015
Scale(kind) == CASE kind = "ER" -> ROne
                 [] kind = "CCI" -> <<200, 3>>
                 [] OTHER -> RI(100)
=============================================================================
