------------------------------ MODULE TaSystem -----------------------------
(***************************************************************************)
(* The system: a finite set of indicator instances, each carrying both its *)
(* reference state (TaRef) and its implementation-shaped state (TaImpl),   *)
(* plus a set of serialized blobs.  One action per public API call:        *)
(*   New, Feed (next with a scalar or a bar), Tok (next with a non-finite  *)
(*   / extreme value), Reset, Clone, Save (serialize), Restore             *)
(*   (deserialize), Drop.                                                  *)
(* `ops` is the behaviour so far and `obs` the specification's expected    *)
(* observation for each op; both are history variables kept out of the     *)
(* VIEW, and together they form one replayable test for the real crate.    *)
(***************************************************************************)
EXTENDS TaDim, TLC, Json

CONSTANTS
    Ids,        \* instance ids (naturals)
    Slots,      \* blob slots (naturals)
    CfgOf,      \* [Ids -> config]: config = [kind, n, n2, n3, m, seed]
    Initial,    \* subset of Ids constructed in the initial state
    SAlpha,     \* scalar alphabet (set of integers)
    BAlpha,     \* bar alphabet (set of [o,h,l,c,v] records)
    Toks,       \* non-finite / extreme tokens that may be fed (set of strings)
    Resets,     \* ids that may be reset
    Clones,     \* set of <<i, j>>: i may be cloned into the absent id j
    Saves,      \* set of <<i, s>>: i may be serialized into slot s
    Restores,   \* set of <<s, j>>: slot s may be deserialized into the absent id j
    News,       \* ids that may be constructed later
    MaxDepth,   \* bound on the number of ops
    KeepHistory,\* TRUE: ops/obs hold the whole behaviour; FALSE: only the last op (long scripted runs)
    UseScript,  \* FALSE: explore freely over the alphabets; TRUE: execute exactly the ops of Script
    Script,     \* the op sequence of a scripted run (evaluated once, in Init)
    CovA, CovB, \* C14 models: instance 2 is fed CovA * x + CovB whenever instance 1 is fed x (CovA = 0: not such a model;
                \* CovA = -1: instance 1 is a Minimum fed x and instance 2 a Maximum fed -x)
    FreeIds,    \* the instances that receive freely chosen inputs (the others only act in continuations)
    Conts       \* continuations: op sequences that may be started from any freely explored state and then run
                \* to their end without interruption (reset / checkpoint / clone followed by a fixed continuation)

VARIABLES inst, blobs, ops, obs, pos,
          rest,   \* the part of the script not yet executed
          env     \* the model's alphabets and continuations, evaluated once (TLC re-evaluates an overridden constant at
                  \* every reference; looking a variable up is free)
vars == <<inst, blobs, ops, obs, pos, rest, env>>

Absent == [kind |-> "none"]
Present(i) == inst[i].kind # "none"

ParamsOf(c) == [n |-> c.n, n2 |-> c.n2, n3 |-> c.n3, m |-> c.m, seed |-> c.seed]

Fresh(c) ==
    [kind |-> c.kind, p |-> ParamsOf(c),
     ref  |-> RefInit(c.kind, ParamsOf(c)),
     impl |-> ImplInit(c.kind, ParamsOf(c)),
     t |-> 0, taint |-> FALSE,
     age |-> 0,          \* calls since a non-finite value first entered (0 = untainted)
     parts |-> PartsInit(c.kind, ParamsOf(c)),    \* C15: the composite as a composition of its public parts
     po |-> <<>>,        \* ... and its outputs at the last step
     ro |-> <<>>,        \* reference fields of the last step
     io |-> <<>>]        \* implementation-model outputs of the last step

NewOp(i) == [op |-> "new", i |-> i, kind |-> CfgOf[i].kind,
             per |-> <<CfgOf[i].n, CfgOf[i].n2, CfgOf[i].n3>>, m |-> CfgOf[i].m, seed |-> CfgOf[i].seed,
             mem |-> Memory(CfgOf[i].kind, ParamsOf(CfgOf[i])),
             dflt |-> CfgOf[i].dflt]        \* TRUE: constructed by Default::default(), which must behave as new(documented defaults)
NoObs == [t |-> 0]

RECURSIVE SeqOfSet(_)
SeqOfSet(S) == IF S = {} THEN <<>> ELSE LET x == CHOOSE y \in S : \A z \in S : y <= z
                                        IN <<x>> \o SeqOfSet(S \ {x})

Init ==
    /\ inst = [i \in Ids |-> IF i \in Initial THEN Fresh(CfgOf[i]) ELSE Absent]
    /\ blobs = [s \in Slots |-> Absent]
    /\ ops = [k \in 1..Cardinality(Initial) |-> NewOp(SeqOfSet(Initial)[k])]
    /\ obs = [k \in 1..Cardinality(Initial) |-> NoObs]
    /\ pos = Cardinality(Initial)
    /\ rest = IF UseScript THEN Script ELSE <<>>
    /\ env = [inputs |-> {[ty |-> "s", x |-> k] : k \in SAlpha} \cup {[ty |-> "b"] @@ b : b \in BAlpha},
              conts |-> Conts, toks |-> Toks, resets |-> Resets, clones |-> Clones, saves |-> Saves, restores |-> Restores,
              news |-> News, free |-> FreeIds]

\* append to the behaviour (or keep only the last op when histories are not kept)
Log(op, ob) ==
    /\ ops' = IF KeepHistory THEN Append(ops, op) ELSE <<op>>
    /\ obs' = IF KeepHistory THEN Append(obs, ob) ELSE <<ob>>
    /\ pos' = pos + 1
    /\ env' = env

---------------------------------------------------------------------------
InToOp(i, in) == IF in.ty = "s" THEN [op |-> "s", i |-> i, x |-> in.x]
                 ELSE [op |-> "b", i |-> i, o |-> in.o, h |-> in.h, l |-> in.l, c |-> in.c, v |-> in.v]

\* next() with an ordinary lattice input
Feed(i, in) ==
    /\ Present(i)
    /\ in.ty \in Accepts(inst[i].kind)
    /\ LET I == inst[i] IN
       IF I.taint
       THEN \* a non-finite value entered since the last reset: the call must return, nothing else is promised;
            \* the Minimum/Maximum cursors still move, which matters for the stale-cursor reset
            /\ inst' = [inst EXCEPT ![i].t = I.t + 1, ![i].age = I.age + 1,
                                    ![i].impl = ImplStep(I.kind, I.p, I.impl, in).s]
            /\ Log(InToOp(i, in), [t |-> I.t + 1, taint |-> TRUE, e |-> Eff(I.kind, in)])
       ELSE LET r == RefStep(I.kind, I.p, I.ref, in)
                m == ImplStep(I.kind, I.p, I.impl, in)
                q == PartsStep(I.kind, I.p, I.parts, in)
            IN /\ inst' = [inst EXCEPT ![i].ref = r.s, ![i].impl = m.s, ![i].t = I.t + 1,
                                       ![i].ro = r.f, ![i].io = m.o, ![i].parts = q.s, ![i].po = q.v]
               /\ Log(InToOp(i, in), [t |-> I.t + 1, taint |-> FALSE, f |-> r.f, den |-> r.den,
                                      dend |-> r.dend, deg |-> r.deg, lo |-> r.lo, hi |-> r.hi,
                                      ts |-> r.ts, e |-> Eff(I.kind, in)])
    /\ UNCHANGED blobs

\* next() with NaN, +-inf, +-f64::MAX, a subnormal or -0.0 (fed as a one-price bar or a scalar)
TokVal(tok) == CASE tok = "NaN" -> NAN [] tok = "PInf" -> PINF [] tok = "NInf" -> NINF
                 [] tok = "FMax" -> PINF - 1 [] tok = "NFMax" -> NINF + 1 [] OTHER -> 0
\* asbar: feed the value through Next<&T> as a one-price bar even if the kind also has a scalar path
TokAs(i, tok, asbar) ==
    /\ Present(i)
    /\ LET I == inst[i]
           x == TokVal(tok)
           in == IF "s" \in Accepts(I.kind) /\ ~asbar THEN [ty |-> "s", x |-> x]
                 ELSE [ty |-> "b", o |-> x, h |-> x, l |-> x, c |-> x, v |-> 1]
       IN /\ inst' = [inst EXCEPT ![i].taint = TRUE, ![i].t = I.t + 1, ![i].age = I.age + 1,
                                  \* cursors, counters and ring contents keep moving (the token's integer code stands in
                                  \* for the value; Minimum/Maximum compare it with IEEE semantics); no numeric
                                  \* expectation is derived from this state until Reset re-initialises it
                                  ![i].impl = ImplStep(I.kind, I.p, I.impl, in).s]
          /\ Log([op |-> IF asbar THEN "tokb" ELSE "tok", i |-> i, x |-> tok], [t |-> I.t + 1, taint |-> TRUE])
    /\ UNCHANGED blobs
Tok(i, tok) == TokAs(i, tok, FALSE)
TokB(i, tok) == "s" \in Accepts(inst[i].kind) /\ TokAs(i, tok, TRUE)

Reset(i) ==
    /\ Present(i)
    /\ LET I == inst[i] IN
       inst' = [inst EXCEPT ![i].ref = RefInit(I.kind, I.p),          \* by definition: a fresh reference
                            \* the transcribed reset; where a poisoned numeric state cannot be modelled the
                            \* code's field-by-field zeroing is what is transcribed anyway
                            ![i].impl = ImplReset(I.kind, I.impl),
                            ![i].parts = PartsInit(I.kind, I.p), ![i].po = <<>>,
                            ![i].t = 0, ![i].taint = FALSE, ![i].age = 0, ![i].ro = <<>>, ![i].io = <<>>]
    /\ Log([op |-> "reset", i |-> i], NoObs)
    /\ UNCHANGED blobs

\* j absent: `let j = i.clone()`;  j present (same kind, any configuration and history): `j.clone_from(&i)`.
\* Either way j becomes an exact copy of i, configuration included.
Clone(i, j) ==
    /\ Present(i) /\ i # j
    /\ inst[j].kind \in {"none", inst[i].kind}
    /\ inst' = [inst EXCEPT ![j] = inst[i]]
    /\ Log([op |-> IF Present(j) THEN "cloneinto" ELSE "clone", i |-> i, j |-> j], NoObs)
    /\ UNCHANGED blobs

Save(i, s) ==
    /\ Present(i)
    /\ blobs' = [blobs EXCEPT ![s] = inst[i]]
    /\ Log([op |-> "save", i |-> i, s |-> s], [t |-> inst[i].t, bound |-> SizeBound(inst[i].kind, inst[i].p)])
    /\ UNCHANGED inst

Restore(s, j) ==
    /\ blobs[s].kind # "none" /\ ~Present(j)
    /\ inst' = [inst EXCEPT ![j] = blobs[s]]
    /\ Log([op |-> "restore", s |-> s, j |-> j], NoObs)
    /\ UNCHANGED blobs

New(i) ==
    /\ ~Present(i)
    /\ inst' = [inst EXCEPT ![i] = Fresh(CfgOf[i])]
    /\ Log(NewOp(i), NoObs)
    /\ UNCHANGED blobs


Drop(i) ==
    /\ Present(i)
    /\ inst' = [inst EXCEPT ![i] = Absent]
    /\ Log([op |-> "drop", i |-> i], NoObs)
    /\ UNCHANGED blobs

\* execute one given op (scripted runs and trace validation)
Do(o) ==
    \/ o.op = "s" /\ Feed(o.i, [ty |-> "s", x |-> o.x])
    \/ o.op = "b" /\ Feed(o.i, [ty |-> "b", o |-> o.o, h |-> o.h, l |-> o.l, c |-> o.c, v |-> o.v])
    \/ o.op = "tok" /\ Tok(o.i, o.x)
    \/ o.op = "tokb" /\ TokAs(o.i, o.x, TRUE)
    \/ o.op = "reset" /\ Reset(o.i)
    \/ o.op \in {"clone", "cloneinto"} /\ Clone(o.i, o.j)
    \/ o.op = "save" /\ Save(o.i, o.s)
    \/ o.op = "restore" /\ Restore(o.s, o.j)
    \/ o.op = "new" /\ New(o.i)
    \/ o.op = "drop" /\ Drop(o.i)

Scripted == rest # <<>> /\ Do(Head(rest)) /\ rest' = Tail(rest)

Free ==
    \/ \E i \in env.free, in \in env.inputs : Feed(i, in)
    \/ \E i \in env.free, tok \in env.toks : Tok(i, tok)
    \/ \E i \in env.free, tok \in env.toks : Present(i) /\ BAlpha # {} /\ TokB(i, tok)     \* (only in models that feed bars at all)
    \/ \E i \in env.resets : Reset(i)
    \/ \E pr \in env.clones : Clone(pr[1], pr[2])
    \/ \E pr \in env.saves : Save(pr[1], pr[2])
    \/ \E pr \in env.restores : Restore(pr[1], pr[2])
    \/ \E i \in env.news : New(i)

Next == IF rest # <<>> THEN Scripted
        ELSE IF UseScript THEN FALSE
        ELSE \/ Free /\ rest' = <<>>
             \/ \E c \in env.conts : Do(Head(c)) /\ rest' = Tail(c)

Spec == Init /\ [][Next]_vars

---------------------------------------------------------------------------
(* exploration control *)
NoOvf == \A i \in Ids : Present(i) => ~RefBad(inst[i].kind, inst[i].ref) /\ ~ImplBad(inst[i].kind, inst[i].impl)
Bounded == pos <= MaxDepth
\* a tainted instance is followed for one window length (every position of the non-finite value in the
\* window, every cursor position), then only Reset is of interest; this keeps the explored space finite
\* (free exploration only: a script or a recorded trace is always executed to its end)
TaintBound == UseScript \/ \A i \in Ids : Present(i) => inst[i].age <= inst[i].p.n + 2
\* bound on the freely explored part only (continuations always run to their end); models define FreeBound
FreeDepthOf(b) == rest # <<>> \/ pos <= b
\* the step counter and the histories are not part of the abstract state
\* While a continuation runs, the behaviour so far is part of the view: a continuation that starts with reset() (or
\* restores a blob) would otherwise merge with the continuation from the initial state -- the transcribed reset
\* re-creates the initial state exactly (ResetToInit) -- and the real instance would never be replayed through
\* "arbitrary history, reset, continuation".
view == <<pos * (IF UseScript THEN 1 ELSE 0), IF UseScript THEN <<>> ELSE rest,      \* (a script's position is `pos`: hashing its tail would cost O(length) per step)
          IF rest = <<>> \/ UseScript THEN <<>> ELSE ops, [i \in Ids |-> IF Present(i) THEN [inst[i] EXCEPT !.t = 0] ELSE inst[i]],
          [s \in Slots |-> IF blobs[s].kind # "none" THEN [blobs[s] EXCEPT !.t = 0] ELSE blobs[s]]>>

\* one replayable behaviour per explored transition
Emit == PrintT(<<"REPLAY", ToJson([ops |-> ops', obs |-> obs'])>>)
\* one behaviour per maximal-depth state only
EmitLeaf == pos' < MaxDepth \/ PrintT(<<"REPLAY", ToJson([ops |-> ops', obs |-> obs'])>>)
\* the whole path but only the last expectation (every prefix is some other transition's behaviour)
EmitLast == PrintT(<<"REPLAY", ToJson([ops |-> ops', obs |-> <<obs'[Len(obs')]>>, from |-> Len(ops') - 1])>>)
\* one line per step of a scripted run (KeepHistory = FALSE): the harness reassembles the behaviour
EmitStep == PrintT(<<"STEP", ToJson([op |-> ops'[Len(ops')], ob |-> obs'[Len(obs')]])>>)

---------------------------------------------------------------------------
(* properties of the specification itself *)

\* the implementation-shaped algorithm computes the documented formula (exact arithmetic).  Where the
\* formula is undefined (zero denominator) the code may return anything finite: that is C08's business.
FieldOk(rf, iv) == ~IsVal(rf.r) \/ ~IsVal(iv) \/ rf.r = iv
Refines ==
    \A i \in Ids : (Present(i) /\ ~inst[i].taint /\ inst[i].ro # <<>>) =>
        /\ Len(inst[i].ro) = Len(inst[i].io)
        /\ \A k \in 1..Len(inst[i].ro) : FieldOk(inst[i].ro[k], inst[i].io[k])

Safe == \A i \in Ids : Present(i) => IndexSafe(inst[i].kind, inst[i].impl)

\* C04 at the level of the algorithm: the transcribed reset() re-creates exactly the state the transcribed new() creates
\* (t = 0 only right after New / Reset, or in a clone / restored copy of such an instance)
ResetToInit == \A i \in Ids : (Present(i) /\ inst[i].t = 0) => inst[i].impl = ImplInit(inst[i].kind, inst[i].p)

\* C07: bounded oscillators stay in range whenever the formula is defined
InRange ==
    \A i \in Ids : (Present(i) /\ ~inst[i].taint /\ inst[i].ro # <<>> /\ DocRange(inst[i].kind) # <<>>) =>
        LET r == inst[i].ro[1].r  rg == DocRange(inst[i].kind)
        IN (CmpOk(rg[1], r) /\ CmpOk(r, rg[2])) => (RLeq(rg[1], r) /\ RLeq(r, rg[2]))

\* C02 lemma: the recursion equals the closed-form sum over the whole history (checked where it fits 32 bits)
EmaLemma ==
    \A i \in Ids : (Present(i) /\ inst[i].kind = "EMA" /\ ~inst[i].taint) =>
        LET h == inst[i].ref.h  n == inst[i].p.n IN
        (n <= 7 /\ Len(h) >= 1 /\ Len(h) <= 8 /\ MaxAbs(h) <= 3 /\ IsVal(inst[i].ref.e.v)) =>
            EmaClosed(h, n) = inst[i].ref.e.v

\* C09 lemma: an exponential average is a convex combination of its history
EmaConvex ==
    \A i \in Ids : (Present(i) /\ inst[i].kind = "EMA" /\ ~inst[i].taint /\ ~inst[i].ref.e.new) =>
        LET v == inst[i].ref.e.v  lo == RI(inst[i].ref.lo)  hi == RI(inst[i].ref.hi) IN
        (CmpOk(lo, v) /\ CmpOk(v, hi)) => (RLeq(lo, v) /\ RLeq(v, hi))

\* C03 lemma: an unchanged price scales both averages of RSI by the same factor, so -- wherever U + D is not zero -- the
\* output does not move, however long the flat run.  (The bounded rationals cannot follow a long decay, (1/3)^31 does not
\* fit 32 bits; this lemma, checked here on every reachable state, is what licenses the replayer to demand "RSI unchanged
\* on an unchanged price" on runs of any length, while the real averages are normal numbers.)
RsiFlat ==
    \A i \in Ids : (Present(i) /\ inst[i].kind = "RSI" /\ ~inst[i].taint /\ ~inst[i].ref.new) =>
        LET s == inst[i].ref
            tot == RAdd(s.u.v, s.d.v)
            cur == RScale(100, RDiv(s.u.v, tot))
            nxt == RefStep("RSI", inst[i].p, s, [ty |-> "s", x |-> s.pv]).f[1].r
        IN (IsVal(tot) /\ tot[1] # 0 /\ IsVal(cur) /\ IsVal(nxt)) => nxt = cur

\* C15 on the reference: the documented formula of a composite = the composition of its public parts
PartsAgree ==
    \A i \in Ids : (Present(i) /\ ~inst[i].taint /\ inst[i].kind \in Composites /\ inst[i].ro # <<>>) =>
        /\ Len(inst[i].po) = Len(inst[i].ro)
        /\ \A k \in 1..Len(inst[i].ro) : FieldOk(inst[i].ro[k], inst[i].po[k])

\* C14 on the reference: outputs are covariant with the price unit as their dimension says.  Instances 1 and 2 have the
\* same configuration; 2 is fed CovA * x + CovB (all price fields of a bar; volume untouched) whenever 1 is fed x.
Moved(r, dim) == CASE dim = "level"  -> RAdd(RScale(CovA, r), RI(CovB))
                   [] dim = "spread" -> RScale(CovA, r)
                   [] dim = "var"    -> RScale(CovA * CovA, r)
                   [] OTHER          -> r
Covariant ==
    (CovA > 0 /\ Present(1) /\ Present(2) /\ inst[1].t = inst[2].t /\ inst[1].ro # <<>> /\ ~inst[1].taint /\ ~inst[2].taint) =>
        \A k \in 1..Len(inst[1].ro) :
            LET r1 == inst[1].ro[k]  r2 == inst[2].ro[k] IN
            (IsVal(r1.r) /\ IsVal(r2.r) /\ IsVal(Moved(r1.r, r1.dim))) => r2.r = Moved(r1.r, r1.dim)
\* Maximum(x) = -Minimum(-x)
MinMaxDual ==
    (CovA = -1 /\ Present(1) /\ Present(2) /\ inst[1].t = inst[2].t /\ inst[1].ro # <<>>) =>
        inst[2].ro[1].r = RNeg(inst[1].ro[1].r)

\* C09 on the reference: dispersion >= 0, histogram = line - signal, ordered bands for m >= 0
NonNeg ==
    \A i \in Ids : (Present(i) /\ ~inst[i].taint /\ inst[i].ro # <<>>) =>
        LET K == inst[i].kind  ro == inst[i].ro IN
        /\ (K \in {"SD", "MAD", "ATR"} /\ IsVal(ro[1].r)) => ro[1].r[1] >= 0
        /\ (K \in {"MACD", "PPO"} /\ IsVal(ro[1].r) /\ IsVal(ro[2].r) /\ IsVal(ro[3].r)) =>
                ro[3].r = RSub(ro[1].r, ro[2].r)
        /\ (K = "KC" /\ inst[i].p.m[1] >= 0 /\ CmpOk(ro[3].r, ro[1].r) /\ CmpOk(ro[1].r, ro[2].r)) =>
                (RLeq(ro[3].r, ro[1].r) /\ RLeq(ro[1].r, ro[2].r))
=============================================================================
