------------------------------- MODULE TaImpl ------------------------------
(***************************************************************************)
(* Implementation-shaped model: every ta-rs struct as a record with the    *)
(* Rust field names, `next` transcribed statement by statement (same read/ *)
(* write order, compare-and-wrap cursor, saturating counter, cached        *)
(* extreme + rescan, pre-incremented MFI cursor, sign-tested pop, seed     *)
(* flags) and `reset` transcribed field by field (including the stale      *)
(* Minimum/Maximum cursors).  Arithmetic is exact (Rat), so this models    *)
(* the ALGORITHM, not its rounding.  Rust slices are 0-based; the deque of *)
(* a record is a TLA+ sequence, so Rust deque[i] is deque[i + 1] here and  *)
(* an out-of-range access is a TLC evaluation error (index safety is       *)
(* therefore checked wherever this model is explored).                     *)
(*                                                                         *)
(* Minimum/Maximum also model IEEE comparisons with non-finite inputs:     *)
(* PINF, NINF, NAN are reserved integers outside the price lattice.        *)
(***************************************************************************)
EXTENDS TaRef

PINF ==  1000001
NINF == -1000001
NAN  ==  1000002
IsTok(x) == x = PINF \/ x = NINF \/ x = NAN
\* IEEE <: false if either side is NaN; infinities ordered as integers
FLt(a, b) == a # NAN /\ b # NAN /\ a < b
FGt(a, b) == a # NAN /\ b # NAN /\ a > b

Rep(n, v) == [i \in 1..n |-> v]
\* index = if index + 1 < period { index + 1 } else { 0 }
Adv(i, n) == IF i + 1 < n THEN i + 1 ELSE 0
At(d, i) == d[i + 1]                              \* Rust d[i]
Set(d, i, v) == [d EXCEPT ![i + 1] = v]           \* Rust d[i] = v

R(s, o) == [s |-> s, o |-> o]

---------------------------------------------------------------------------
(* SimpleMovingAverage *)
SmaInit(n) == [period |-> n, index |-> 0, count |-> 0, sum |-> 0, deque |-> Rep(n, 0)]
SmaNext(s, x) ==
    LET old == At(s.deque, s.index)
        dq  == Set(s.deque, s.index, x)
        idx == Adv(s.index, s.period)
        cnt == IF s.count < s.period THEN s.count + 1 ELSE s.count
        sum == s.sum - old + x
    IN R([s EXCEPT !.deque = dq, !.index = idx, !.count = cnt, !.sum = sum], Norm(sum, cnt))
SmaReset(s) == [s EXCEPT !.index = 0, !.count = 0, !.sum = 0, !.deque = Rep(s.period, 0)]

(* WeightedMovingAverage *)
WmaInit(n) == [period |-> n, index |-> 0, count |-> 0, weight |-> 0, sum |-> 0, sum_flat |-> 0,
               deque |-> Rep(n, 0)]
WmaNext(s, x) ==
    LET old == At(s.deque, s.index)
        dq  == Set(s.deque, s.index, x)
        idx == Adv(s.index, s.period)
        warm == s.count < s.period
        cnt == IF warm THEN s.count + 1 ELSE s.count
        wt  == IF warm THEN cnt ELSE s.weight
        sum == IF warm THEN s.sum + x * wt ELSE s.sum - s.sum_flat + x * s.weight
        sf  == s.sum_flat - old + x
        \* once per period (when the cursor wraps on a full window) both running sums are rebuilt from the window, oldest first
        \* (added by the fix for the long-stream drift; in exact arithmetic it changes nothing, which Refines confirms)
        wrap == idx = 0 /\ cnt = s.period
        sf2  == IF wrap THEN SumS(dq) ELSE sf
        sum2 == IF wrap THEN WSum(dq) ELSE sum
    IN R([s EXCEPT !.deque = dq, !.index = idx, !.count = cnt, !.weight = wt, !.sum = sum2, !.sum_flat = sf2],
         Norm(2 * sum2, wt * (wt + 1)))
WmaReset(s) == [s EXCEPT !.index = 0, !.count = 0, !.weight = 0, !.sum = 0, !.sum_flat = 0,
                         !.deque = Rep(s.period, 0)]

(* StandardDeviation: warm-up Welford, then sliding Welford; m2 clamped at 0.  *)
(* The observable is the variance m2 / count (the code returns its sqrt).      *)
SdInit(n) == [period |-> n, index |-> 0, count |-> 0, m |-> RZero, m2 |-> RZero, deque |-> Rep(n, 0)]
SdNext(s, x) ==
    LET old == At(s.deque, s.index)
        dq  == Set(s.deque, s.index, x)
        idx == Adv(s.index, s.period)
        warm == s.count < s.period
        cnt == IF warm THEN s.count + 1 ELSE s.count
        delta == IF warm THEN RSub(RI(x), s.m) ELSE RI(x - old)
        m   == IF warm THEN RAdd(s.m, RDiv(delta, RI(cnt))) ELSE RAdd(s.m, RDiv(delta, RI(s.period)))
        delta2 == IF warm THEN RSub(RI(x), m)
                  ELSE RSub(RAdd(RSub(RI(x), m), RI(old)), s.m)        \* input - m + old_val - old_m
        m2a == RAdd(s.m2, RMul(delta, delta2))
        m2  == IF IsVal(m2a) /\ m2a[1] < 0 THEN RZero ELSE m2a
    IN R([s EXCEPT !.deque = dq, !.index = idx, !.count = cnt, !.m = m, !.m2 = m2], RDiv(m2, RI(cnt)))
SdReset(s) == [s EXCEPT !.index = 0, !.count = 0, !.m = RZero, !.m2 = RZero, !.deque = Rep(s.period, 0)]

(* MeanAbsoluteDeviation: running sum for the mean, deviations recomputed over deque[..count] *)
MadInit(n) == [period |-> n, index |-> 0, count |-> 0, sum |-> 0, deque |-> Rep(n, 0)]
MadNext(s, x) ==
    LET warm == s.count < s.period
        cnt == IF warm THEN s.count + 1 ELSE s.count
        sum == IF warm THEN s.sum + x ELSE s.sum + x - At(s.deque, s.index)
        dq  == Set(s.deque, s.index, x)
        idx == Adv(s.index, s.period)
        \* mean = sum / cnt ; mad = (sum_i |v_i - mean|) / cnt  over the first cnt slots
        big == TooBig(dq, 500000000)          \* the integer deviation sum would not fit 32 bits
        dev == IF big THEN 0 ELSE FoldLeft(LAMBDA a, v : a + Abs(cnt * v - sum), 0, SubSeq(dq, 1, cnt))
    IN R([s EXCEPT !.deque = dq, !.index = idx, !.count = cnt, !.sum = sum], IF big THEN OVF ELSE Norm(dev, cnt * cnt))
MadReset(s) == [s EXCEPT !.index = 0, !.count = 0, !.sum = 0, !.deque = Rep(s.period, 0)]

(* Minimum: cached extreme index, rescan (first strictly smaller wins) on eviction *)
MinInit(n) == [period |-> n, min_index |-> 0, cur_index |-> 0, deque |-> Rep(n, PINF)]
FindMin(d) ==
    LET st == FoldLeft(LAMBDA a, i : IF FLt(d[i], a[1]) THEN <<d[i], i - 1>> ELSE a,
                       <<PINF, 0>>, [i \in 1..Len(d) |-> i])
    IN st[2]
MinNext(s, x) ==
    LET dq == Set(s.deque, s.cur_index, x)
        mi == IF FLt(x, At(dq, s.min_index)) THEN s.cur_index
              ELSE IF s.min_index = s.cur_index THEN FindMin(dq) ELSE s.min_index
    IN R([s EXCEPT !.deque = dq, !.min_index = mi, !.cur_index = Adv(s.cur_index, s.period)], At(dq, mi))
MinReset(s) == [s EXCEPT !.min_index = 0, !.cur_index = 0, !.deque = Rep(s.period, PINF)]
\* the reset as found before the repair of the stale-cursor defect (kept for the spec self-test, which must
\* find a behaviour on which this variant and a fresh instance differ once a NaN is fed after reset)
MinResetAsFound(s) == [s EXCEPT !.deque = Rep(s.period, PINF)]

(* Maximum *)
MaxInit(n) == [period |-> n, max_index |-> 0, cur_index |-> 0, deque |-> Rep(n, NINF)]
FindMax(d) ==
    LET st == FoldLeft(LAMBDA a, i : IF FGt(d[i], a[1]) THEN <<d[i], i - 1>> ELSE a,
                       <<NINF, 0>>, [i \in 1..Len(d) |-> i])
    IN st[2]
MaxNext(s, x) ==
    LET dq == Set(s.deque, s.cur_index, x)
        mi == IF FGt(x, At(dq, s.max_index)) THEN s.cur_index
              ELSE IF s.max_index = s.cur_index THEN FindMax(dq) ELSE s.max_index
    IN R([s EXCEPT !.deque = dq, !.max_index = mi, !.cur_index = Adv(s.cur_index, s.period)], At(dq, mi))
MaxReset(s) == [s EXCEPT !.max_index = 0, !.cur_index = 0, !.deque = Rep(s.period, NINF)]

(* ExponentialMovingAverage: k = 2 / (period + 1) *)
EmaIInit(n) == [period |-> n, k |-> Norm(2, n + 1), current |-> RZero, is_new |-> TRUE]
EmaINext(s, x) ==       \* x : Rat
    LET cur == IF s.is_new THEN x ELSE RAdd(RMul(s.k, x), RMul(RSub(ROne, s.k), s.current))
    IN R([s EXCEPT !.is_new = FALSE, !.current = cur], cur)
EmaIReset(s) == [s EXCEPT !.current = RZero, !.is_new = TRUE]

(* TrueRange: prev_close : Option<f64> *)
TrIInit == [has |-> FALSE, prev_close |-> 0]
TrINextS(s, x) == R([has |-> TRUE, prev_close |-> x], IF s.has THEN Abs(x - s.prev_close) ELSE 0)
TrINextB(s, b) ==
    LET d1 == b.h - b.l   d2 == Abs(b.h - s.prev_close)   d3 == Abs(b.l - s.prev_close)
    IN R([has |-> TRUE, prev_close |-> b.c], IF s.has THEN IMax(IMax(d1, d2), d3) ELSE b.h - b.l)
TrINext(s, in) == IF IsBar(in) THEN TrINextB(s, in) ELSE TrINextS(s, in.x)
TrIReset(s) == TrIInit

(* AverageTrueRange *)
AtrInit(n) == [true_range |-> TrIInit, ema |-> EmaIInit(n)]
AtrNext(s, in) ==
    LET t == TrINext(s.true_range, in)
        e == EmaINext(s.ema, RI(t.o))
    IN R([true_range |-> t.s, ema |-> e.s], e.o)
AtrReset(s) == [true_range |-> TrIReset(s.true_range), ema |-> EmaIReset(s.ema)]

(* FastStochastic *)
FsInit(n) == [period |-> n, minimum |-> MinInit(n), maximum |-> MaxInit(n)]
FsNext(s, in) ==
    \* scalar path feeds minimum first, bar path feeds maximum first; the two are independent
    LET mn == MinNext(s.minimum, Lw(in))
        mx == MaxNext(s.maximum, Hg(in))
        out == IF mn.o = mx.o THEN RI(50) ELSE Pct(Cl(in) - mn.o, mx.o - mn.o)
    IN R([s EXCEPT !.minimum = mn.s, !.maximum = mx.s], out)
FsReset(s) == [s EXCEPT !.minimum = MinReset(s.minimum), !.maximum = MaxReset(s.maximum)]

---------------------------------------------------------------------------
ImplInit(kind, p) ==
    CASE kind = "SMA" -> SmaInit(p.n)
      [] kind = "WMA" -> WmaInit(p.n)
      [] kind = "SD"  -> SdInit(p.n)
      [] kind = "MAD" -> MadInit(p.n)
      [] kind = "MIN" -> MinInit(p.n)
      [] kind = "MAX" -> MaxInit(p.n)
      [] kind = "EMA" -> EmaIInit(p.n)
      [] kind = "TR"  -> TrIInit
      [] kind = "ATR" -> AtrInit(p.n)
      [] kind \in {"MACD", "PPO"} ->
            [fast_ema |-> EmaIInit(p.n), slow_ema |-> EmaIInit(p.n2), signal_ema |-> EmaIInit(p.n3)]
      [] kind = "RSI" -> [period |-> p.n, up_ema_indicator |-> EmaIInit(p.n), down_ema_indicator |-> EmaIInit(p.n),
                          prev_val |-> 0, is_new |-> TRUE]
      [] kind = "FAST_STOCH" -> FsInit(p.n)
      [] kind = "SLOW_STOCH" -> [fast_stochastic |-> FsInit(p.n), ema |-> EmaIInit(p.n2)]
      [] kind \in {"ROC", "ER"} -> [period |-> p.n, index |-> 0, count |-> 0, deque |-> Rep(p.n, 0)]
      [] kind = "BB"  -> [period |-> p.n, multiplier |-> p.m, sd |-> SdInit(p.n)]
      [] kind = "KC"  -> [period |-> p.n, multiplier |-> p.m, atr |-> AtrInit(p.n), ema |-> EmaIInit(p.n)]
      [] kind = "CE"  -> [atr |-> AtrInit(p.n), min |-> MinInit(p.n), max |-> MaxInit(p.n), multiplier |-> p.m]
      [] kind = "CCI" -> [sma |-> SmaInit(p.n), mad |-> MadInit(p.n)]
      [] kind = "MFI" -> [period |-> p.n, index |-> 0, count |-> 0, previous_typical_price |-> 0,
                          total_positive_money_flow |-> 0, total_negative_money_flow |-> 0,
                          deque |-> Rep(p.n, 0)]                     \* all money in units of 1/3
      [] kind = "OBV" -> [obv |-> 0, prev_close |-> 0]

\* one call of next(); o = <<observables>> in the field order of TaRef (Rat each)
ImplStep(kind, p, s, in) ==
  CASE kind = "SMA" -> LET r == SmaNext(s, Cl(in)) IN R(r.s, <<r.o>>)
    [] kind = "WMA" -> LET r == WmaNext(s, Cl(in)) IN R(r.s, <<r.o>>)
    [] kind = "SD"  -> LET r == SdNext(s, Cl(in)) IN R(r.s, <<r.o>>)
    [] kind = "MAD" -> LET r == MadNext(s, Cl(in)) IN R(r.s, <<r.o>>)
    [] kind = "MIN" -> LET r == MinNext(s, Lw(in)) IN R(r.s, <<RI(r.o)>>)
    [] kind = "MAX" -> LET r == MaxNext(s, Hg(in)) IN R(r.s, <<RI(r.o)>>)
    [] kind = "EMA" -> LET r == EmaINext(s, RI(Cl(in))) IN R(r.s, <<r.o>>)
    [] kind = "TR"  -> LET r == TrINext(s, in) IN R(r.s, <<RI(r.o)>>)
    [] kind = "ATR" -> LET r == AtrNext(s, in) IN R(r.s, <<r.o>>)
    [] kind = "MACD" ->
        LET f == EmaINext(s.fast_ema, RI(Cl(in)))
            sl == EmaINext(s.slow_ema, RI(Cl(in)))
            macd == RSub(f.o, sl.o)
            g == EmaINext(s.signal_ema, macd)
        IN R([fast_ema |-> f.s, slow_ema |-> sl.s, signal_ema |-> g.s], <<macd, g.o, RSub(macd, g.o)>>)
    [] kind = "PPO" ->
        LET f == EmaINext(s.fast_ema, RI(Cl(in)))
            sl == EmaINext(s.slow_ema, RI(Cl(in)))
            ppo == RMul(RDiv(RSub(f.o, sl.o), sl.o), RI(100))
            g == EmaINext(s.signal_ema, ppo)
        IN R([fast_ema |-> f.s, slow_ema |-> sl.s, signal_ema |-> g.s], <<ppo, g.o, RSub(ppo, g.o)>>)
    [] kind = "RSI" ->
        LET x == Cl(in)
            up == IF s.is_new THEN p.seed ELSE IF x > s.prev_val THEN RI(x - s.prev_val) ELSE RZero
            dn == IF s.is_new THEN p.seed ELSE IF x > s.prev_val THEN RZero ELSE RI(s.prev_val - x)
            u == EmaINext(s.up_ema_indicator, up)
            d == EmaINext(s.down_ema_indicator, dn)
            total == RAdd(u.o, d.o)
        IN R([s EXCEPT !.is_new = FALSE, !.prev_val = x, !.up_ema_indicator = u.s, !.down_ema_indicator = d.s],
             <<IF total = RZero THEN RI(50) ELSE RDiv(RMul(RI(100), u.o), total)>>)
    [] kind = "FAST_STOCH" -> LET r == FsNext(s, in) IN R(r.s, <<r.o>>)
    [] kind = "SLOW_STOCH" ->
        LET f == FsNext(s.fast_stochastic, in)
            e == EmaINext(s.ema, f.o)
        IN R([fast_stochastic |-> f.s, ema |-> e.s], <<e.o>>)
    [] kind = "ROC" ->
        LET x == Cl(in)
            steady == s.count > s.period
            cnt == IF steady THEN s.count ELSE s.count + 1
            previous == IF steady THEN At(s.deque, s.index) ELSE IF cnt = 1 THEN x ELSE At(s.deque, 0)
            dq == Set(s.deque, s.index, x)
        IN R([s EXCEPT !.count = cnt, !.deque = dq, !.index = Adv(s.index, s.period)],
             <<IF previous = 0 THEN UNDEF ELSE Pct(x - previous, previous)>>)
    [] kind = "ER" ->
        LET x == Cl(in)
            steady == s.count >= s.period
            cnt == IF steady THEN s.count ELSE s.count + 1
            first == IF steady THEN At(s.deque, s.index) ELSE At(s.deque, 0)
            dq == Set(s.deque, s.index, x)
            idx == Adv(s.index, s.period)
            \* for n in &deque[idx..cnt] then &deque[0..idx]: volatility += |previous - n|; previous = n
            walk == SubSeq(dq, idx + 1, cnt) \o SubSeq(dq, 1, idx)
            acc == FoldLeft(LAMBDA a, v : <<a[1] + Abs(a[2] - v), v>>, <<0, first>>, walk)
            volatility == acc[1]
        IN R([s EXCEPT !.count = cnt, !.deque = dq, !.index = idx],
             <<IF volatility = 0 THEN RZero ELSE Norm(Abs(first - x), volatility)>>)
    [] kind = "BB" ->
        LET r == SdNext(s.sd, Cl(in))
            hv == RMul(RMul(s.multiplier, RAbs(s.multiplier)), r.o)
        IN R([s EXCEPT !.sd = r.s], <<r.s.m, hv, hv>>)
    [] kind = "KC" ->
        LET e == EmaINext(s.ema, Norm(Tp3(in), 3))
            a == AtrNext(s.atr, in)
            w == RMul(a.o, s.multiplier)
        IN R([s EXCEPT !.ema = e.s, !.atr = a.s], <<e.o, RAdd(e.o, w), RSub(e.o, w)>>)
    [] kind = "CE" ->
        LET a == AtrNext(s.atr, in)
            w == RMul(a.o, s.multiplier)
            mn == MinNext(s.min, in.l)
            mx == MaxNext(s.max, in.h)
        IN R([s EXCEPT !.atr = a.s, !.min = mn.s, !.max = mx.s], <<RSub(RI(mx.o), w), RAdd(RI(mn.o), w)>>)
    [] kind = "CCI" ->
        \* tp = (c + h + l) / 3 ; both parts are fed tp.  Windows hold 3 tp as integers:
        \* sma3 = 3 sma, mad3 = 3 mad, so (tp - sma) / (mad * 0.015) = (tp3 - sma3) / (mad3 * 3/200)
        LET tp3 == Tp3(in)
            a == SmaNext(s.sma, tp3)
            d == MadNext(s.mad, tp3)
        IN R([sma |-> a.s, mad |-> d.s],
             <<IF d.o = RZero THEN RZero ELSE RDiv(RSub(RI(tp3), a.o), RMul(d.o, <<3, 200>>))>>)
    [] kind = "MFI" ->
        LET tp3 == Tp3(in)
            idx == Adv(s.index, s.period)
            warm == s.count < s.period
            cnt == IF warm THEN s.count + 1 ELSE s.count
        IN IF warm /\ cnt = 1
           THEN R([s EXCEPT !.index = idx, !.count = cnt, !.previous_typical_price = tp3], <<RI(50)>>)
           ELSE
             LET popped == At(s.deque, idx)
                 pos0 == IF warm THEN s.total_positive_money_flow
                         ELSE IF popped >= 0 THEN IMax(s.total_positive_money_flow - popped, 0)
                         ELSE s.total_positive_money_flow
                 neg0 == IF warm THEN s.total_negative_money_flow
                         ELSE IF popped >= 0 THEN s.total_negative_money_flow
                         ELSE IMax(s.total_negative_money_flow + popped, 0)
                 raw == tp3 * in.v
                 up == tp3 > s.previous_typical_price
                 dn == tp3 < s.previous_typical_price
                 pos == IF up THEN pos0 + raw ELSE pos0
                 neg == IF dn THEN neg0 + raw ELSE neg0
                 dq == Set(s.deque, idx, IF up THEN raw ELSE IF dn THEN -raw ELSE 0)
                 total == pos + neg
             IN R([s EXCEPT !.index = idx, !.count = cnt, !.previous_typical_price = tp3,
                            !.total_positive_money_flow = pos, !.total_negative_money_flow = neg, !.deque = dq],
                  <<IF total = 0 THEN RI(50) ELSE RScale(100, Norm(pos, total))>>)
    [] kind = "OBV" ->
        LET obv == IF in.c > s.prev_close THEN s.obv + in.v
                   ELSE IF in.c < s.prev_close THEN s.obv - in.v ELSE s.obv
        IN R([obv |-> obv, prev_close |-> in.c], <<RI(obv)>>)

ImplReset(kind, s) ==
    CASE kind = "SMA" -> SmaReset(s)
      [] kind = "WMA" -> WmaReset(s)
      [] kind = "SD"  -> SdReset(s)
      [] kind = "MAD" -> MadReset(s)
      [] kind = "MIN" -> MinReset(s)
      [] kind = "MAX" -> MaxReset(s)
      [] kind = "EMA" -> EmaIReset(s)
      [] kind = "TR"  -> TrIReset(s)
      [] kind = "ATR" -> AtrReset(s)
      [] kind \in {"MACD", "PPO"} ->
            [fast_ema |-> EmaIReset(s.fast_ema), slow_ema |-> EmaIReset(s.slow_ema),
             signal_ema |-> EmaIReset(s.signal_ema)]
      [] kind = "RSI" -> [s EXCEPT !.is_new = TRUE, !.prev_val = 0,
                                   !.up_ema_indicator = EmaIReset(s.up_ema_indicator),
                                   !.down_ema_indicator = EmaIReset(s.down_ema_indicator)]
      [] kind = "FAST_STOCH" -> FsReset(s)
      [] kind = "SLOW_STOCH" -> [fast_stochastic |-> FsReset(s.fast_stochastic), ema |-> EmaIReset(s.ema)]
      [] kind \in {"ROC", "ER"} -> [s EXCEPT !.index = 0, !.count = 0, !.deque = Rep(s.period, 0)]
      [] kind = "BB"  -> [s EXCEPT !.sd = SdReset(s.sd)]
      [] kind = "KC"  -> [s EXCEPT !.atr = AtrReset(s.atr), !.ema = EmaIReset(s.ema)]
      [] kind = "CE"  -> [s EXCEPT !.atr = AtrReset(s.atr), !.min = MinReset(s.min), !.max = MaxReset(s.max)]
      [] kind = "CCI" -> [sma |-> SmaReset(s.sma), mad |-> MadReset(s.mad)]
      [] kind = "MFI" -> [s EXCEPT !.index = 0, !.count = 0, !.previous_typical_price = 0,
                                   !.total_positive_money_flow = 0, !.total_negative_money_flow = 0,
                                   !.deque = Rep(s.period, 0)]
      [] kind = "OBV" -> [obv |-> 0, prev_close |-> 0]

\* rationals inside an implementation state that may have overflowed (state constraint)
EmaIBad(e) == ~IsVal(e.current)
ImplBad(kind, s) ==
    CASE kind = "EMA" -> EmaIBad(s)
      [] kind = "SD"  -> ~IsVal(s.m) \/ ~IsVal(s.m2)
      [] kind = "BB"  -> ~IsVal(s.sd.m) \/ ~IsVal(s.sd.m2)
      [] kind = "ATR" -> EmaIBad(s.ema)
      [] kind \in {"MACD", "PPO"} -> EmaIBad(s.fast_ema) \/ EmaIBad(s.slow_ema) \/ EmaIBad(s.signal_ema)
      [] kind = "RSI" -> EmaIBad(s.up_ema_indicator) \/ EmaIBad(s.down_ema_indicator)
      [] kind = "SLOW_STOCH" -> EmaIBad(s.ema)
      [] kind = "KC"  -> EmaIBad(s.ema) \/ EmaIBad(s.atr.ema)
      [] kind = "CE"  -> EmaIBad(s.atr.ema)
      [] OTHER -> FALSE

---------------------------------------------------------------------------
(* index safety, stated rather than only implied by evaluation errors *)
RingOk(s) == s.index \in 0..(s.period - 1) /\ Len(s.deque) = s.period
IndexSafe(kind, s) ==
    CASE kind \in {"SMA", "WMA", "SD", "MAD"} -> RingOk(s) /\ s.count \in 0..s.period
      [] kind = "ROC" -> RingOk(s) /\ s.count \in 0..(s.period + 1)
      [] kind \in {"ER", "MFI"} -> RingOk(s) /\ s.count \in 0..s.period
      [] kind = "MIN" -> s.cur_index \in 0..(s.period - 1) /\ s.min_index \in 0..(s.period - 1)
      [] kind = "MAX" -> s.cur_index \in 0..(s.period - 1) /\ s.max_index \in 0..(s.period - 1)
      [] OTHER -> TRUE
=============================================================================
