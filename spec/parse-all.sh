#!/bin/sh
# parse every specification module with SANY (setup sanity check)
cd "$(dirname "$0")"
rc=0
for f in *.tla; do
  out=$(tla-sany "$f" 2>&1)
  if echo "$out" | grep -qi "error"; then echo "SANY: $f FAILED"; echo "$out" | grep -i -A3 error | head; rc=1; fi
done
[ $rc = 0 ] && echo "SANY: all modules parse"
exit $rc
