#!/usr/bin/env python3
"""./check selftest  -- the machinery's own teeth (not a manifest command; touches neither /repo nor the evidence):
  1. specification mutants: deliberately wrong transcriptions of TaImpl must be REFUTED by TLC (Refines / ResetToInit violated);
  2. trace validation: a recorded trace is accepted, and rejected as soon as one observed field is corrupted or one event dropped.
Exit 0 if every expectation holds."""
import os, re, shutil, subprocess, sys, json
sys.path.insert(0, os.path.dirname(os.path.abspath(__file__)))
import tlagen
from tlagen import Job, cfg
from fractions import Fraction as Fr

WORK = os.path.join(os.path.dirname(os.path.dirname(os.path.abspath(__file__))), "work", "selftest")

MUTANTS = [
    # (name, file, old text, new text, kind, period, alphabet, invariant expected to fail, extra job kwargs)
    ("sma-divides-by-period-in-warm-up", "TaImpl.tla", "!.sum = sum], Norm(sum, cnt))", "!.sum = sum], Norm(sum, s.period))", "SMA", 3, {1, 2, 3}, "Refines", {}),
    ("min-without-rescan", "TaImpl.tla", "ELSE IF s.min_index = s.cur_index THEN FindMin(dq) ELSE s.min_index", "ELSE s.min_index", "MIN", 3, {1, 2, 3}, "Refines", {}),
    ("wma-forgets-weight-in-steady-state", "TaImpl.tla", "ELSE s.sum - s.sum_flat + x * s.weight", "ELSE s.sum - s.sum_flat + x", "WMA", 2, {1, 2, 3}, "Refines", {}),
    ("sd-sliding-update-drops-old-terms", "TaImpl.tla", "ELSE RSub(RAdd(RSub(RI(x), m), RI(old)), s.m)", "ELSE RSub(RI(x), m)", "SD", 2, {-1, 0, 2}, "Refines", {}),
    ("roc-lookback-off-by-one", "TaImpl.tla", "previous == IF steady THEN At(s.deque, s.index)", "previous == IF steady THEN At(s.deque, Adv(s.index, s.period))", "ROC", 3, {1, 2, 3}, "Refines", {}),
    ("minimum-reset-as-found-before-fix", "TaImpl.tla", "MinReset(s) == [s EXCEPT !.min_index = 0, !.cur_index = 0, !.deque = Rep(s.period, PINF)]",
     "MinReset(s) == [s EXCEPT !.deque = Rep(s.period, PINF)]", "MIN", 3, {1, 2}, "ResetToInit", {"resets": {1}}),
    ("window-n-plus-one-in-reference", "TaRef.tla", "LET w == Push(s.w, Cl(in), p.n) IN\n        O([w |-> w], <<F(\"out\", Mean(w)", "LET w == Push(s.w, Cl(in), p.n + 1) IN\n        O([w |-> w], <<F(\"out\", Mean(w)", "SMA", 2, {1, 2, 3}, "Refines", {}),
]


def run_mutant(m):
    name, fname, old, new, kind, n, alpha, inv, kw = m
    job = Job("mut_" + re.sub(r"[^a-z0-9]", "_", name), {1: cfg(kind, n)}, salpha=alpha, emit=None, invariants=("Refines", "Safe", "ResetToInit"), **kw)
    d = os.path.join(WORK, job.name)
    shutil.rmtree(d, ignore_errors=True)
    os.makedirs(d)
    for f in os.listdir(tlagen.SPEC_DIR):
        if f.endswith(".tla"):
            shutil.copy(os.path.join(tlagen.SPEC_DIR, f), d)
    text = open(os.path.join(d, fname)).read()
    if text.count(old) != 1:
        return name, False, "mutation site not found exactly once (%d)" % text.count(old)
    open(os.path.join(d, fname), "w").write(text.replace(old, new))
    mod, mt, ct = job.module()
    open(os.path.join(d, mod + ".tla"), "w").write(mt)
    open(os.path.join(d, mod + ".cfg"), "w").write(ct)
    p = subprocess.run(["timeout", "300", "tlc", "-workers", "1", "-metadir", os.path.join(d, "meta"), "-cleanup", "-noGenerateSpecTE", "-config", mod + ".cfg", mod + ".tla"],
                       cwd=d, stdout=subprocess.PIPE, stderr=subprocess.STDOUT, text=True)
    shutil.rmtree(os.path.join(d, "meta"), ignore_errors=True)
    hit = re.search(r"Invariant (\w+) is violated", p.stdout)
    ok = bool(hit) and hit.group(1) == inv
    return name, ok, ("refuted: invariant %s violated" % hit.group(1)) if hit else "NOT refuted: " + p.stdout[-300:]


GOOD_TRACE = """{"op":"new","i":1,"res":"Ok","per":[3]}
{"op":"s","i":1,"x":3,"t":1,"cls":["fin"],"q":[196608],"lat":[3]}
{"op":"s","i":1,"x":1,"t":2,"cls":["fin"],"q":[131072],"lat":[2]}
{"op":"query","i":1,"disp":"SMA(3)","per":3,"mtext":""}
{"op":"s","i":1,"x":1,"t":3,"cls":["fin"],"q":[109227],"lat":[-2000000000]}
{"op":"reset","i":1}
{"op":"s","i":1,"x":2,"t":1,"cls":["fin"],"q":[131072],"lat":[2]}
{"op":"newfail","i":2,"res":"InvalidParameter","per":[0]}
"""


def run_trace(name, text, expect_accept):
    import plans
    d = os.path.join(WORK, "trace_" + name)
    shutil.rmtree(d, ignore_errors=True)
    os.makedirs(d)
    open(os.path.join(d, "trace.ndjson"), "w").write(text)
    json.dump({"cfgs": {"1": {"kind": "SMA", "n": 3, "n2": 1, "n3": 1, "m": [2, 1], "seed": [1, 10]},
                        "2": {"kind": "SMA", "n": 0, "n2": 1, "n3": 1, "m": [2, 1], "seed": [1, 10]}}, "slots": [], "events": len(text.splitlines())},
              open(os.path.join(d, "cfgs.json"), "w"))
    res = plans.validate_trace("selftest", d, {"seed": 0, "threads": 1, "ops": 0, "faults": False})
    accepted = res["violations_total"] == 0
    return "trace-" + name, accepted == expect_accept, ("accepted" if accepted else "rejected at event %s" % res["violations"][0]["step"])


def main():
    results = [run_mutant(m) for m in MUTANTS]
    results.append(run_trace("good", GOOD_TRACE, True))
    results.append(run_trace("one-q-corrupted", GOOD_TRACE.replace('"q":[131072],"lat":[2]}\n{"op":"query"', '"q":[131080],"lat":[2]}\n{"op":"query"'), False))
    results.append(run_trace("one-event-dropped", "\n".join(l for k, l in enumerate(GOOD_TRACE.splitlines()) if k != 2) + "\n", False))
    results.append(run_trace("display-corrupted", GOOD_TRACE.replace("SMA(3)", "SMA(4)"), False))
    results.append(run_trace("zero-period-accepted", GOOD_TRACE.replace('{"op":"newfail","i":2,"res":"InvalidParameter","per":[0]}', '{"op":"newfail","i":2,"res":"Ok","per":[0]}'), False))
    bad = 0
    for name, ok, what in results:
        print("%-45s %s  (%s)" % (name, "ok" if ok else "FAILED", what))
        bad += 0 if ok else 1
    sys.exit(1 if bad else 0)


if __name__ == "__main__":
    main()
