#!/usr/bin/env python3
"""prints a summary table of the last run of every check from evidence/*.json (used for DESIGN.md section 0.3)"""
import json, os, glob
root = os.path.dirname(os.path.dirname(os.path.abspath(__file__)))
print("| id | tier | TLC models | distinct states | behaviour x unit runs | steps executed | max err/tol | wall s |")
print("|---|---|---|---|---|---|---|---|")
for f in sorted(glob.glob(os.path.join(root, "evidence", "C*.json"))):
    e = json.load(open(f)); c = e["coverage"]; h = c.get("harness", {})
    print("| %s | %s | %d | %d | %d | %d | %.2g | %.0f |" % (e["property_id"], e["tier"], len(c.get("tlc_models", [])), c["states"],
          c["traces_validated_against_impl"], c["evaluations"], h.get("max_err_over_tol", 0) or 0, e["wall_s"]))
