"""Generation of TLC model instances (MC module + cfg) for TaSystem, and running TLC on them.

One source of truth: every model EXTENDS /verif/spec/TaSystem.tla; this file only supplies constants
(alphabets, configurations, bounds, scripts) and selects which invariants / emission mode to use.
"""
import os, re, shutil, subprocess, time, json
from fractions import Fraction

SPEC_DIR = os.path.join(os.path.dirname(os.path.dirname(os.path.abspath(__file__))), "spec")


def tla(x):
    """Python value -> TLA+ expression text."""
    if isinstance(x, bool):
        return "TRUE" if x else "FALSE"
    if isinstance(x, int):
        return str(x) if x >= 0 else "(%d)" % x
    if isinstance(x, Fraction):
        return "<<%s, %d>>" % (tla(x.numerator), x.denominator)
    if isinstance(x, str):
        return '"%s"' % x
    if isinstance(x, tuple) or isinstance(x, list):
        return "<<" + ", ".join(tla(e) for e in x) + ">>"
    if isinstance(x, (set, frozenset)):
        return "{" + ", ".join(sorted(tla(e) for e in x)) + "}"
    if isinstance(x, dict):
        if not x:
            return "<<>>"
        if all(isinstance(k, int) for k in x):  # function on ids; a balanced tree of @@ (a flat chain of 1 700 overflows SANY's / TLC's stack)
            items = ["(%s :> %s)" % (tla(k), tla(v)) for k, v in sorted(x.items())]
            while len(items) > 1:
                items = ["(%s @@ %s)" % (items[k], items[k + 1]) if k + 1 < len(items) else items[k] for k in range(0, len(items), 2)]
            return items[0]
        return "[" + ", ".join("%s |-> %s" % (k, tla(v)) for k, v in x.items()) + "]"
    raise TypeError(type(x))


def cfg(kind, n=1, n2=1, n3=1, m=Fraction(2), seed=Fraction(1, 10), dflt=False):
    """dflt: the real instance is obtained through Default::default() (the configuration must then be the documented defaults)"""
    return {"kind": kind, "n": n, "n2": n2, "n3": n3, "m": Fraction(m), "seed": Fraction(seed), "dflt": dflt}


def bar(h, l, c, o=None, v=1):
    return {"o": c if o is None else o, "h": h, "l": l, "c": c, "v": v}


class Job:
    """One TLC model instance."""

    def __init__(self, name, cfgs, initial=None, salpha=(), balpha=(), toks=(), resets=(), clones=(), saves=(),
                 restores=(), news=(), maxdepth=10**6, keep=True, script=None, emit="EmitLast",
                 invariants=("Refines", "Safe", "InRange", "NonNeg"), noovf=True, view=True, slots=(),
                 extra_defs="", extra_cfg="", mode="bfs", sim=None, conts=(), threads=4, free_ids=None, cov=(0, 0)):
        self.cov = cov
        self.free_ids = free_ids
        # a continuation ends in a sentinel op that is never enabled: exploration stops after it instead of
        # re-exploring the whole free space around the instances the continuation created
        self.conts = [list(c) + [{"op": "end", "i": 0}] for c in conts]
        self.threads = threads
        self.name = name
        self.cfgs = cfgs  # {id: cfg}
        self.initial = set(cfgs.keys()) if initial is None else set(initial)
        self.salpha = set(salpha)
        self.balpha = list(balpha)
        self.toks = set(toks)
        self.resets = set(resets)
        self.clones = set(clones)
        self.saves = set(saves)
        self.restores = set(restores)
        self.news = set(news)
        self.maxdepth = maxdepth
        self.keep = keep
        self.script = script
        # SLOW_STOCH and PPO smooth an ill-conditioned ratio: their tolerance at step t depends on the worst conditioning of ALL
        # earlier steps, so these kinds get the expectation of every step of the path, not only of the last one
        if emit == "EmitLast" and any(c["kind"] in ("SLOW_STOCH", "PPO") for c in cfgs.values()):
            emit = "Emit"
        self.emit = emit
        self.invariants = list(invariants)
        self.noovf = noovf
        self.view = view
        self.slots = set(slots)
        self.extra_defs = extra_defs
        self.extra_cfg = extra_cfg
        self.mode = mode
        self.sim = sim

    def module(self):
        mod = "MC_" + self.name
        balpha = "{" + ", ".join(tla(b) for b in self.balpha) + "}"
        script = "<<>>" if self.script is None else "<<\n  " + ",\n  ".join(tla(o) for o in self.script) + ">>"
        lines = [
            "---- MODULE %s ----" % mod,
            "EXTENDS TaSystem",
            "mcIds == %s" % tla(set(self.cfgs.keys())),
            "mcSlots == %s" % tla(self.slots),
            "mcCfgOf == %s" % tla(self.cfgs),
            "mcInitial == %s" % tla(self.initial),
            "mcSAlpha == %s" % tla(self.salpha),
            "mcBAlpha == %s" % balpha,
            "mcToks == %s" % tla(self.toks),
            "mcResets == %s" % tla(self.resets),
            "mcClones == %s" % tla(self.clones),
            "mcSaves == %s" % tla(self.saves),
            "mcRestores == %s" % tla(self.restores),
            "mcNews == %s" % tla(self.news),
            "mcMaxDepth == %d" % self.maxdepth,
            "mcKeep == %s" % tla(self.keep),
            "mcScript == %s" % script,
            "mcUseScript == %s" % tla(self.script is not None),
            "mcConts == {%s}" % ",\n  ".join(tla(c) for c in self.conts),
            "mcFreeIds == %s" % tla(set(self.cfgs.keys()) if self.free_ids is None else set(self.free_ids)),
            "mcCovA == %d" % self.cov[0],
            "mcCovB == %d" % self.cov[1],
            self.extra_defs,
            "====",
        ]
        c = ["CONSTANTS"]
        for k in ["Ids", "Slots", "CfgOf", "Initial", "SAlpha", "BAlpha", "Toks", "Resets", "Clones", "Saves",
                  "Restores", "News", "MaxDepth"]:
            c.append(" %s <- mc%s" % (k, k))
        c.append(" KeepHistory <- mcKeep")
        c.append(" Script <- mcScript")
        c.append(" UseScript <- mcUseScript")
        c.append(" Conts <- mcConts")
        c.append(" FreeIds <- mcFreeIds")
        c.append(" CovA <- mcCovA")
        c.append(" CovB <- mcCovB")
        c += ["INIT Init", "NEXT Next"]
        if self.view:
            c.append("VIEW view")
        if self.noovf:
            c.append("CONSTRAINT NoOvf")
        c.append("CONSTRAINT Bounded")
        c.append("CONSTRAINT TaintBound")
        if self.emit:
            c.append("ACTION_CONSTRAINT %s" % self.emit)
        for inv in self.invariants:
            c.append("INVARIANT %s" % inv)
        c.append("CHECK_DEADLOCK FALSE")
        if self.extra_cfg:
            c.append(self.extra_cfg)
        return mod, "\n".join(lines) + "\n", "\n".join(c) + "\n"


TLC_STATS = re.compile(r"(\d+) states generated, (\d+) distinct states found")


def run_tlc(job, workdir, timeout=3600, workers=1, heap="3g"):
    """Run TLC on a job; returns a dict with states/distinct/ok/err/out/wall."""
    d = os.path.join(workdir, job.name)
    shutil.rmtree(d, ignore_errors=True)
    os.makedirs(d)
    for f in os.listdir(SPEC_DIR):
        if f.endswith(".tla"):
            shutil.copy(os.path.join(SPEC_DIR, f), d)
    mod, mtext, ctext = job.module()
    open(os.path.join(d, mod + ".tla"), "w").write(mtext)
    open(os.path.join(d, mod + ".cfg"), "w").write(ctext)
    out = os.path.join(d, "tlc.out")
    cmd = ["timeout", str(timeout), "tlc", "-workers", str(workers), "-metadir", os.path.join(d, "meta"), "-cleanup",
           "-noGenerateSpecTE", "-config", mod + ".cfg"]
    if job.mode == "simulate":
        cmd += ["-simulate", job.sim]
    cmd += [mod + ".tla"]
    env = dict(os.environ)
    env["JAVA_TOOL_OPTIONS"] = "-Xss512m -Xmx%s -XX:+UseParallelGC" % heap
    t0 = time.time()
    def limit():   # a model that prints more than 6 GB is a mistake in the plan, not something to wait for
        import resource
        resource.setrlimit(resource.RLIMIT_FSIZE, (6 << 30, 6 << 30))
    with open(out, "w") as fo:
        p = subprocess.run(cmd, cwd=d, stdout=fo, stderr=subprocess.STDOUT, env=env, preexec_fn=limit)
    wall = time.time() - t0
    states = distinct = 0
    err = None
    tail = []
    with open(out) as f:
        for line in f:
            if line.startswith('<<"'):
                continue
            tail.append(line.rstrip())
            m = TLC_STATS.search(line)
            if m:
                states, distinct = int(m.group(1)), int(m.group(2))
    text = "\n".join(tail)
    ok = p.returncode == 0 and "No error has been found" in text or (job.mode == "simulate" and p.returncode == 0)
    if not ok:
        if p.returncode == 124:
            err = "TLC timed out after %ds" % timeout
        else:
            keep = []
            for k, l in enumerate(tail):
                if l.startswith("Error:") or "rror" in l[:40]:
                    keep += [x[:300] for x in tail[k:k + 3]]
            if not keep:
                keep = [l[:300] for l in tail if l and not l.startswith(("Linting", "Parsing", "Semantic"))][-8:]
            err = "TLC exit %d: %s" % (p.returncode, " | ".join(keep[:12]))
    shutil.rmtree(os.path.join(d, "meta"), ignore_errors=True)
    return {"job": job.name, "states": states, "distinct": distinct, "ok": ok, "err": err, "out": out, "wall": wall,
            "dir": d}


class RawJob:
    """A model that is not an instance of TaSystem (Ctor.tla, DataItem.tla, Cursor.tla): module + cfg text given as is."""

    def __init__(self, name, module_text, cfg_text, tables=None, mode="bfs", sim=None, threads=1, sched=None):
        self.sched = sched            # a schedule dict for Streams.tla models (written next to the model as sched.json)
        self.name = name
        self.module_text = module_text
        self.cfg_text = cfg_text
        self.tables = tables          # "ctor" | "dataitem" | None (spec-level only)
        self.emit = tables is not None or sched is not None
        self.mode = mode
        self.sim = sim
        self.threads = threads

    def module(self):
        return "MC_" + self.name, self.module_text, self.cfg_text
