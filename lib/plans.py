"""Which TLC models decide which property, per tier.  Every job is an instance of spec/TaSystem.tla."""
import random
from fractions import Fraction as Fr
from tlagen import Job, RawJob, cfg, bar, tla


class ToolError(Exception):
    pass


A5 = {-2, -1, 0, 1, 2}
A3 = {-1, 0, 2}
P3 = {1, 2, 3}
BIG = 1000000
MULTS = [Fr(2), Fr(1, 2), Fr(0), Fr(3), Fr(-1)]

WINDOWED = ["SMA", "WMA", "SD", "MAD", "MIN", "MAX", "BB"]


def closed(name, kind, n, salpha=(), balpha=(), m=Fr(2), n2=1, n3=1, seed=Fr(1, 10), **kw):
    return Job(name, {1: cfg(kind, n, n2, n3, m, seed)}, salpha=salpha, balpha=balpha, **kw)


# ---------------------------------------------------------------------------------------------
# scripted streams: Python chooses the op sequence (seeded), TLC is the oracle along it

def scripted(name, cfgs, script, **kw):
    kw.setdefault("emit", "EmitStep")
    kw.setdefault("keep", False)
    # a script is always executed to its end: where the 32-bit rationals of the transcription overflow (long periods: the
    # denominators of the incremental fields grow with n^2) the transcription's value is the absorbing OVF and Refines is
    # vacuous from there on, but the documented value (computed from the window each step) is still the expectation replayed
    kw.setdefault("noovf", False)
    return Job(name, cfgs, initial=(), script=script, **kw)


def new_op(i):
    return {"op": "new", "i": i}


def pristine_job(kind, n, inv, alt=0):
    """An instance is also 'newly constructed' when it was deserialized from the checkpoint of a fresh (or just-reset) one: the formulas
    hold for it like for any other. new(1); save; restore as 2; feed 2; reset 2; save; restore as 3; feed 3 (values from TLC as usual)."""
    c = kcfg(kind, n, alt=alt)
    cyc = [3, 1, 2, 2, 5, 1, 4, 4, 2, 6]
    xs = [cyc[k % 10] for k in range(n + 4)]
    ys = [cyc[(k + 3) % 10] for k in range(n + 3)]
    ops = [new_op(1), {"op": "save", "i": 1, "s": 1}, {"op": "restore", "s": 1, "j": 2}] + to_ops(kind, 2, xs)
    ops += [{"op": "reset", "i": 2}, {"op": "save", "i": 2, "s": 1}, {"op": "restore", "s": 1, "j": 3}] + to_ops(kind, 3, ys) + to_ops(kind, 2, ys)
    return scripted("%s_pristine_n%d" % (kind, n), {1: c, 2: c, 3: c}, ops, slots={1}, noovf=False, invariants=inv)


def s_op(i, x):
    return {"op": "s", "i": i, "x": x}


def b_op(i, b):
    d = {"op": "b", "i": i}
    d.update(b)
    return d


def rand_walk(rng, length, lo, hi, start=None):
    x = rng.randint(lo, hi) if start is None else start
    out = []
    for _ in range(length):
        step = rng.choice([-3, -2, -1, -1, 0, 0, 1, 1, 2, 3])
        x = min(hi, max(lo, x + step))
        out.append(x)
    return out


def stream_patterns(rng, length, lo, hi, lively=False):
    """a seeded scalar stream mixing regimes: random walk, alternating extremes, plateau, saw-tooth, spikes.
    lively: mostly independent draws, so that the value entering and the value leaving a window differ at
    nearly every step (flat stretches have their own check, C08)."""
    out = []
    while len(out) < length:
        r = rng.randint(0, 5)
        if lively and rng.random() < 0.8:
            r = 4
        seg = rng.randint(3, 12 if lively else 40)
        if r == 0:
            out += rand_walk(rng, seg, lo, hi)
        elif r == 1:
            out += [lo if k % 2 else hi for k in range(seg)]
        elif r == 2:
            out += [rng.randint(lo, hi)] * seg
        elif r == 3:
            out += [lo + (k % (hi - lo + 1)) for k in range(seg)]
        elif r == 4:
            out += [rng.randint(lo, hi) for _ in range(seg * 4)]
        else:
            base = rng.randint(lo, hi)
            out += [base] * (seg // 2) + [hi if base < (lo + hi) // 2 else lo] + [base] * (seg // 2)
    return out[:length]


# ---------------------------------------------------------------------------------------------
def plan_C01(tier, seed):
    jobs = []
    nmax_full = 4 if tier == "quick" else 5
    for kind in WINDOWED:
        for n in range(1, 6):
            alpha = A5 if n <= nmax_full else A3
            if n <= 2:
                # spikes of 10^6 and 10^8 entering and leaving the window: after them the incremental updates cancel at the scale of
                # the spike, and what is left must still be the statistic of the small values (within tau * the spike)
                alpha = alpha | {BIG, 100 * BIG}
            m = MULTS[(n - 1) % len(MULTS)]
            # reset is part of every history (t counts inputs since construction or reset): from every reachable state, reset
            # followed by fresh values (a state after reset merges with the initial state in the VIEW, so the continuation
            # is what makes the real post-reset instance run)
            conts = [[{"op": "reset", "i": 1}] + ct for ct in continuations(kind, n)] if n <= 3 else []
            # with a spike in the window the 32-bit rationals overflow for the quadratic kinds (SD, BB): the run goes on (the
            # transcribed fields stay OVF, absorbing), and once the spike has left the window the documented value, computed
            # from the window alone, is again the expectation -- the step where cancellation has to have left nothing behind
            jobs.append(closed("%s_n%d" % (kind, n), kind, n, salpha=alpha, m=m, resets={1} if n <= 3 else (), conts=conts,
                               noovf=(n > 2)))
        if kind == "BB":
            # a huge multiplier: the bands are far from the mean, the mean itself is still the window mean within tau (a middle
            # band recovered from the outer bands would be swamped)
            for n in (2, 3):
                jobs.append(closed("BB_hugem_n%d" % n, "BB", n, salpha=A3 | {5}, m=Fr(10 ** (6 + 3 * (n - 2)))))
        if tier == "thorough":
            # wider alphabet for short periods, and the other multipliers
            for n in (1, 2, 3):
                jobs.append(closed("%s_n%d_a7" % (kind, n), kind, n, salpha={-3, -2, -1, 0, 1, 2, 3}, m=MULTS[(n + 1) % 5]))
    for kind in WINDOWED:
        for n in (2, 3):
            jobs.append(pristine_job(kind, n, ("Refines", "Safe"), alt=n))
    # sampled large periods on seeded streams (TLC as oracle along a Python-chosen script)
    rng = random.Random(seed * 7919 + 1)
    pool = list(range(6, 65)) + [100, 127, 128, 129, 200, 255, 256, 257, 500, 512, 1000, 1023, 1024]
    for kd in WINDOWED:
        # per kind: seeded periods beyond the exhaustive range (a path that is special for one period, a power of two, ... )
        periods = sorted(set(rng.sample(pool, 3 if tier == "quick" else 14) + ([1024] if tier == "thorough" else [])))
        for n in periods:
            length = min(3 * n + 50, 1000 if tier == "quick" else 3200)
            xs = stream_patterns(rng, length, -30, 30, lively=(n % 2 == 0))
            script = [new_op(1)] + [s_op(1, x) for x in xs]
            jobs.append(scripted("%s_big_n%d" % (kd, n), {1: cfg(kd, n, m=rng.choice(MULTS))}, script))
    # every period of a range beyond the exhaustive ones (paths that depend on period mod 4, a power of two, a small-buffer threshold):
    # one instance per period, three windows of values and one early spike
    for kd in WINDOWED:
        ids, ops = {}, []
        for k, n in enumerate(range(6, 41 if tier == "quick" else 81)):
            ids[k + 1] = cfg(kd, n, m=MULTS[k % len(MULTS)])
            xs = stream_patterns(rng, 3 * n + 12, -9, 9, lively=True)
            xs[n // 2] = BIG
            ops += [new_op(k + 1)] + [s_op(k + 1, x) for x in xs] + [{"op": "drop", "i": k + 1}]
        jobs.append(scripted("%s_periods" % kd, ids, ops))
    # long runs of short periods (thousands of wrap-arounds; accumulators that resynchronise periodically)
    for kind in WINDOWED:
        for rep in range(2 if tier == "quick" else 4):
            n = rng.choice([1, 2, 3, 4, 5, 7, 9])
            length = 9000 if tier == "quick" else (70000 if rep == 0 else 20000)
            xs = stream_patterns(rng, length, -9, 9, lively=True)
            script = [new_op(1)] + [s_op(1, x) for x in xs]
            jobs.append(scripted("%s_long%d_n%d" % (kind, rep, n), {1: cfg(kind, n, m=rng.choice(MULTS))}, script))
    return {
        "min_by_kind": {"kinds": WINDOWED, "values": 1000}, "jobs": jobs,
        "parallel": 12,
        "exhaustive": False,
        "rule": "closed TaSystem models (every reachable (ring contents, cursor, counter) state and every transition out of it) for "
                "SMA/WMA/SD/MAD/MIN/MAX/BB with period 1..5 over alphabets with ties, sign changes and zero; one behaviour per "
                "transition (BFS path + the transition), replayed at every price unit; plus seeded scripted streams for sampled "
                "periods up to 1024 and long runs; a case is distinct by (kind, period, literal input history)",
        "assumptions": [
            "expected values are exact rationals computed by TLC on integer lattice prices; the real crate is fed the affine image a*k+b of the lattice",
            "inputs are affine images of small-integer lattices (<= 61 levels), not arbitrary doubles",
            "TLC, the CommunityModules Json module and serde_json are trusted",
        ],
    }


def hlc_bars(levels=(1, 2, 4), vols=(1,)):
    """every bar with low <= close <= high over the given price levels (open = close)"""
    out = []
    for h in levels:
        for l in levels:
            for c in levels:
                if l <= c <= h:
                    for v in vols:
                        out.append(bar(h, l, c, v=v))
    return out


COMMON_ASSUME = [
    "expected values are exact rationals computed by TLC on integer lattice prices; the real crate is fed the affine image a*k+b of the lattice",
    "inputs are affine images of small-integer lattices, not arbitrary doubles",
    "TLC, the CommunityModules Json module and serde_json are trusted",
]


def plan_C02(tier, seed):
    q = tier == "quick"
    rng = random.Random(seed * 104729 + 2)
    jobs = []
    bars = hlc_bars()
    inv = ("Refines", "Safe", "NonNeg", "EmaLemma", "EmaConvex")
    for n in (1, 2, 3, 4, 5, 7):
        jobs.append(closed("EMA_n%d" % n, "EMA", n, salpha=A5, maxdepth=(6 if q else 8), invariants=inv))
    jobs.append(closed("TR_s", "TR", 1, salpha=A5, maxdepth=5, invariants=inv))
    jobs.append(closed("TR_b", "TR", 1, balpha=bars, maxdepth=(4 if q else 5), invariants=inv))
    for kind in ("EMA", "TR", "ATR", "MACD", "KC", "CE"):
        jobs.append(pristine_job(kind, 3, ("Refines", "Safe"), alt=1))
    # user-defined bar types are not validated: close outside [low, high], low above high (the formulas are defined all the same)
    odd = [bar(3, 1, 5), bar(2, 2, 1), bar(1, 3, 2), bar(4, 2, 3)]
    inv_odd = ("Refines", "Safe")       # (NonNeg is a statement about bars with low <= high)
    jobs.append(closed("TR_odd", "TR", 1, balpha=odd, maxdepth=4, invariants=inv_odd))
    jobs.append(closed("ATR_odd", "ATR", 2, balpha=odd, maxdepth=4, invariants=inv_odd))
    jobs.append(closed("KC_odd", "KC", 2, m=Fr(2), balpha=odd, maxdepth=4, invariants=inv_odd))
    xs = stream_patterns(rng, 66200 if q else 140000, -9, 9, lively=True)
    jobs.append(scripted("EMA_past_65536_n%d" % 5, {1: cfg("EMA", 5)}, [new_op(1)] + [s_op(1, x) for x in xs], noovf=False, invariants=inv))
    for kind in ("EMA", "ATR", "MACD", "KC", "CE"):
        # t counts inputs since construction or reset: a reused instance (reset, then fresh values) from every state of a short model
        n = 3
        sa2, ba2 = (set(), bars[:4]) if kind == "CE" else ({1, 3}, [])
        conts = [[{"op": "reset", "i": 1}] + continuations(kind, n)[k] for k in (0, 2)]
        jobs.append(Job("%s_reuse_n3" % kind, {1: kcfg(kind, n, alt=1)}, salpha=sa2, balpha=ba2, conts=conts, maxdepth=4 + 7, noovf=False, invariants=inv,
                        extra_defs="FreeDepth == FreeDepthOf(4)", extra_cfg="CONSTRAINT FreeDepth"))
    for n in (1, 2, 3, 5):
        jobs.append(closed("ATR_b_n%d" % n, "ATR", n, balpha=bars, maxdepth=(4 if q else 6), invariants=inv))
        jobs.append(closed("ATR_s_n%d" % n, "ATR", n, salpha=A5, maxdepth=(5 if q else 7), invariants=inv))
    triples = [(f, s_, g) for f in (1, 2, 3, 5) for s_ in (1, 2, 3, 5) for g in (1, 2, 3, 5)]
    if q:
        fixed = [(1, 1, 1), (3, 3, 2), (5, 2, 3), (2, 5, 1), (1, 3, 3), (3, 1, 5)]
        triples = fixed + rng.sample([t for t in triples if t not in fixed], 6)
    for (f, s_, g) in triples:
        jobs.append(closed("MACD_%d_%d_%d" % (f, s_, g), "MACD", f, n2=s_, n3=g, salpha=A5, maxdepth=(5 if q else 6), invariants=inv))
    for k, n in enumerate((1, 2, 3, 4)):
        for j, m in enumerate(MULTS if not q else [MULTS[k % 5], MULTS[(k + 2) % 5]]):
            jobs.append(closed("KC_s_n%d_m%d" % (n, j), "KC", n, m=m, salpha=A5, maxdepth=(5 if q else 6), invariants=inv))
            jobs.append(closed("KC_b_n%d_m%d" % (n, j), "KC", n, m=m, balpha=bars, maxdepth=(4 if q else 5), invariants=inv))
            jobs.append(closed("CE_n%d_m%d" % (n, j), "CE", n, m=m, balpha=bars, maxdepth=(4 if q else 5), invariants=inv))
    # large periods: the first steps pin the seeding and alpha = 2/(n+1); TLC's exact depth is short there
    bigs = [14, 26, 100, 1024] + [rng.randint(6, 2000) for _ in range(2 if q else 10)]
    for n in bigs:
        for kind in ("EMA", "ATR", "MACD", "KC", "CE"):
            xs = stream_patterns(rng, 40, 1, 9, lively=True)
            if kind in ("ATR", "KC", "CE") and rng.random() < 0.7 or kind == "CE":
                bs = [rng.choice(hlc_bars((1, 2, 3, 5, 8))) for _ in xs]
                ops = [b_op(1, b) for b in bs]
            else:
                ops = [s_op(1, x) for x in xs]
            c = cfg(kind, n, n2=rng.choice([n, 2 * n + 1, max(1, n // 2)]), n3=rng.choice([1, 9, n]), m=rng.choice(MULTS))
            jobs.append(scripted("%s_big_n%d" % (kind, n), {1: c}, [new_op(1)] + ops, noovf=False, invariants=inv))
    # long recursions: value checks while the exact rational fits, the restart equivalence at every step after
    for rep in range(3 if q else 8):
        n = rng.choice([1, 2, 3, 5, 9, 14, 26, 100])
        length = 9000 if q else 30000
        xs = stream_patterns(rng, length, -9, 9, lively=True)
        jobs.append(scripted("EMA_long%d_n%d" % (rep, n), {1: cfg("EMA", n)}, [new_op(1)] + [s_op(1, x) for x in xs], noovf=False, invariants=inv))
    return {
        "min_by_kind": {"kinds": ["EMA", "TR", "ATR", "MACD", "KC", "CE"], "values": 1000}, "jobs": jobs, "parallel": 12,
        "rule": "depth-bounded exhaustive TaSystem models (all input sequences over the alphabet while the exact rational fits 32 bits) for "
                "EMA, TR, ATR, MACD, KC, CE over periods {1..5,7}, period triples from {1,2,3,5}^3 and multipliers {2,1/2,0,3,-1}; scalar "
                "alphabet {-2..2}, bar alphabet = all bars low<=close<=high over three price levels (every TrueRange branch in every order); "
                "one behaviour per transition; large periods on scripted streams; long recursions checked by the restart equivalence "
                "(spec lemma: the reference state of an EMA is its last output) at every step of runs of 9 000-30 000 inputs",
        "assumptions": COMMON_ASSUME + ["beyond the exact depth of the 32-bit rationals (>= 8 steps for periods <= 5, 2 steps at period 1024) an EMA's "
                                        "value is checked relationally (restart equivalence, C15 wiring, C09 bounds), not against an exact value"],
    }


# nine valid bars in which close differs from (high+low)/2, typical prices repeat across different bars
# (equal neighbours) and volume takes 0, 1, 2 -- so typical price, close and the direction test are distinguishable
OSC_BARS = [bar(2, 1, 1, v=1), bar(2, 1, 2, v=0), bar(3, 1, 3, v=2), bar(3, 2, 2, v=1), bar(3, 1, 1, v=2),
            bar(1, 1, 1, v=1), bar(2, 2, 2, v=0), bar(3, 3, 3, v=2), bar(3, 2, 3, v=1)]


def rand_bar(rng, lo=1, hi=9, vmax=3):
    a, b, c = sorted(rng.randint(lo, hi) for _ in range(3))
    return bar(c, a, b, o=rng.randint(a, c), v=rng.randint(0, vmax))


def rand_bars(rng, length, lo=1, hi=9, vmax=3):
    """valid bars, with runs of equal typical price, zero volume and gaps"""
    out = []
    while len(out) < length:
        r = rng.random()
        if r < 0.04:
            b = rand_bar(rng, lo, hi, vmax)
            out += [dict(b) for _ in range(rng.randint(5, 40))]                               # a flat stretch: the very same bar again and again
        elif r < 0.12:
            b = rand_bar(rng, lo, hi, vmax)
            out += [dict(b, v=rng.randint(0, vmax)) for _ in range(rng.randint(2, 4))]     # same prices, other volume
        elif r < 0.2:
            out += [dict(rand_bar(rng, lo, hi, vmax), v=0) for _ in range(rng.randint(1, 5))]  # zero-volume moves
        else:
            out.append(rand_bar(rng, lo, hi, vmax))
    return out[:length]


BAR_ONLY = ("CE", "CCI", "MFI", "OBV")
OSC = ["RSI", "FAST_STOCH", "SLOW_STOCH", "ROC", "ER", "PPO", "CCI", "MFI", "OBV"]


def plan_C03(tier, seed):
    q = tier == "quick"
    rng = random.Random(seed * 15485863 + 3)
    jobs = []
    inv = ("Refines", "Safe", "InRange", "NonNeg")
    hb = hlc_bars()
    for n in (1, 2, 3, 4, 5):
        for k, sd in enumerate([Fr(1, 10), Fr(1, 5), Fr(1), Fr(1, 100)] if not q else [Fr(1, 10), [Fr(1, 5), Fr(1), Fr(1, 100)][n % 3]]):
            jobs.append(closed("RSI_n%d_s%d" % (n, k), "RSI", n, seed=sd, salpha=P3, maxdepth=(7 if q else 9), invariants=inv + ("RsiFlat",)))
        jobs.append(closed("FS_s_n%d" % n, "FAST_STOCH", n, salpha=P3, invariants=inv))
        jobs.append(closed("FS_b_n%d" % n, "FAST_STOCH", n, balpha=hb, maxdepth=(100 if n <= 3 else 6), invariants=inv))
        jobs.append(closed("ROC_n%d" % n, "ROC", n, salpha=P3, invariants=inv))
        jobs.append(closed("ER_n%d" % n, "ER", n, salpha=P3, invariants=inv))
        if n <= (3 if q else 4):
            jobs.append(closed("CCI_n%d" % n, "CCI", n, balpha=OSC_BARS, invariants=inv))
        if n <= (2 if q else 3):
            jobs.append(closed("MFI_n%d" % n, "MFI", n, balpha=OSC_BARS, invariants=inv))
        elif n <= 4:
            jobs.append(closed("MFI_n%d" % n, "MFI", n, balpha=OSC_BARS, maxdepth=(5 if q else 6), invariants=inv))
        for e in ((1, 3) if q else (1, 2, 3, 5)):
            jobs.append(closed("SS_s_n%d_e%d" % (n, e), "SLOW_STOCH", n, n2=e, salpha=P3, maxdepth=(6 if q else 8), invariants=inv))
            if n <= 3:
                jobs.append(closed("SS_b_n%d_e%d" % (n, e), "SLOW_STOCH", n, n2=e, balpha=hb, maxdepth=(4 if q else 5), invariants=inv))
    triples = [(f, s_, g) for f in (1, 2, 3, 5) for s_ in (1, 2, 3, 5) for g in (1, 2, 3, 5)]
    if q:
        fixed = [(1, 1, 1), (3, 3, 2), (5, 2, 3), (2, 5, 1), (1, 3, 3)]
        triples = fixed + rng.sample([t for t in triples if t not in fixed], 5)
    for (f, s_, g) in triples:
        jobs.append(closed("PPO_%d_%d_%d" % (f, s_, g), "PPO", f, n2=s_, n3=g, salpha=P3, maxdepth=(6 if q else 7), invariants=inv))
    obv_bars = [bar(c, c, c, v=v) for c in (1, 2, 3) for v in (0, 1, 2)]
    jobs.append(closed("OBV", "OBV", 1, balpha=obv_bars, maxdepth=(5 if q else 6), invariants=inv))
    for kind in OSC:
        jobs.append(pristine_job(kind, 3, ("Refines", "Safe"), alt=2))
    # flat runs far longer than the bounded rationals can follow: lemma RsiFlat (model-checked above) is the oracle, "RSI does not move on
    # an unchanged price", while both averages are certainly normal numbers
    for n in (2, 3, 5, 14):
        xs = stream_patterns(rng, 12, 1, 9, lively=True) + [7] * (25 * n + 25) + [9, 4, 4, 6] + [6] * (9 * n + 10) + [5, 8] + [8] * 60
        jobs.append(scripted("RSI_flat_n%d" % n, {1: cfg("RSI", n)}, [new_op(1)] + [s_op(1, x) for x in xs], noovf=False, invariants=inv))
    # sampled periods up to 512 and long runs, on seeded scripted streams
    for kind in OSC:
        for rep in range(2 if q else 8):
            n = rng.choice([6, 7, 8, 9, 10, 14, 20, 26, 50, 100, 128, 255, 256, 257, 512])
            length = min(3 * n + 60, 900 if q else 1700)
            c = cfg(kind, n, n2=rng.choice([1, 3, 9, n]), n3=rng.choice([1, 9]))
            if kind in BAR_ONLY or (kind in ("FAST_STOCH", "SLOW_STOCH") and rep % 2):
                ops = [b_op(1, b) for b in rand_bars(rng, length)]
            else:
                ops = [s_op(1, x) for x in stream_patterns(rng, length, 1, 30, lively=(rep % 2 == 0))]
            if rep % 2 == 1:       # "since construction / reset": the same instance reused after reset()
                for _ in range(2):
                    ops.insert(rng.randrange(len(ops)), {"op": "reset", "i": 1})
            jobs.append(scripted("%s_big%d_n%d" % (kind, rep, n), {1: c}, [new_op(1)] + ops, noovf=False, invariants=inv))
        n = rng.choice([1, 2, 3, 4, 5, 7])
        length = 9000 if q else 30000
        if kind in BAR_ONLY:
            ops = [b_op(1, b) for b in rand_bars(rng, length)]
        else:
            ops = [s_op(1, x) for x in stream_patterns(rng, length, 1, 19, lively=True)]
        jobs.append(scripted("%s_long_n%d" % (kind, n), {1: cfg(kind, n, n2=rng.choice([1, 3]), n3=rng.choice([1, 3]))}, [new_op(1)] + ops,
                             noovf=False, invariants=inv))
    return {
        "min_by_kind": {"kinds": OSC, "values": 500}, "jobs": jobs, "parallel": 12,
        "rule": "closed TaSystem models for FAST_STOCH, ROC, ER, CCI, MFI (periods 1..5 / 1..4 / 1..3) and depth-bounded exhaustive ones for "
                "RSI (four seed/unit pairs), SLOW_STOCH, PPO (period triples), OBV; positive scalar alphabet {1,2,3}, bar alphabet of 9 valid "
                "bars with close != (high+low)/2, repeated typical prices and volume 0/1/2; one behaviour per transition; sampled periods up to "
                "512 and long runs on seeded scripted streams; a step is compared when the spec's condition number is <= 1e6",
        "assumptions": COMMON_ASSUME + ["steps whose reference denominator is zero or whose condition number exceeds 1e6 are skipped and counted (they belong to C08)"],
    }


ALL22 = ["SMA", "WMA", "SD", "MAD", "MIN", "MAX", "EMA", "TR", "ATR", "MACD", "PPO", "RSI", "FAST_STOCH", "SLOW_STOCH",
         "ROC", "ER", "BB", "KC", "CE", "CCI", "MFI", "OBV"]
UNBOUNDED = ("EMA", "TR", "ATR", "MACD", "PPO", "RSI", "SLOW_STOCH", "KC", "CE", "OBV")
TOKS4 = {"NaN", "PInf", "NInf", "FMax"}


def kcfg(kind, n, rng=None, alt=0):
    """a configuration of `kind` with main period n (other periods / multiplier varied with alt)"""
    n2 = [n, 1, 3, 2][alt % 4] if kind in ("MACD", "PPO") else [2, 1, 3, n][alt % 4]
    n3 = [2, 1, n, 3][alt % 4]
    return cfg(kind, n, n2=n2, n3=n3, m=MULTS[alt % 5])


def to_ops(kind, i, xs, rng=None, style=0):
    """feed lattice values xs to instance i: scalars, or bars built around them for bar-only kinds"""
    ops = []
    for k, x in enumerate(xs):
        if kind in BAR_ONLY or style == 1:
            d = 1 if x > 1 else 0
            ops.append(b_op(i, bar(x + 1, x - d, x if k % 2 else x + 1, o=x, v=(k + x) % 3)))
        else:
            ops.append(s_op(i, x))
    return ops


def continuations(kind, n, i=1):
    """four continuations of n+2 inputs from values that do not occur in the exploration alphabet"""
    L = n + 2
    # ... and one that stays BELOW / inside the exploration alphabet, so that stale larger values (a cached maximum) would surface
    pats = [[4 + k for k in range(L)], [9 + L - k for k in range(L)], [4 if k % 2 else 11 for k in range(L)], [6] * L, [2 if k % 2 else 1 for k in range(L)]]
    return [to_ops(kind, i, p) for p in pats]


def free_alpha(kind, with_big=False):
    """(salpha, balpha) for free exploration of a kind"""
    if kind in BAR_ONLY:
        return set(), (OSC_BARS if kind != "CE" else hlc_bars())
    sa = {1, 2, 3}
    if with_big:
        sa = sa | {BIG}
    return sa, []


def plan_C04(tier, seed):
    q = tier == "quick"
    rng = random.Random(seed * 32452843 + 4)
    jobs = []
    inv = ("Refines", "Safe", "ResetToInit")
    for kind in ALL22:
        for n in ((1, 2) if q else (1, 2, 3, 4)):
            if kind in ("TR", "OBV") and n > 1:
                continue
            c = kcfg(kind, n, alt=n)
            sa, ba = free_alpha(kind, with_big=(n <= (1 if q else 2)))
            if kind in BAR_ONLY and n >= 2:
                ba = ba[:5]
            # every continuation is explored from every reachable state (the view keeps the history while a continuation
            # runs), so the quick tier takes two continuations and the thorough tier four
            conts = [[{"op": "reset", "i": 1}] + ct for ct in continuations(kind, n)]
            if q:
                conts = [conts[0], conts[2]] + ([conts[4]] if kind in ("MAX", "FAST_STOCH", "SLOW_STOCH", "CE") else [])
            if n == 4:
                # period 4 (thorough tier only) on a two-letter alphabet with two continuations: the full alphabet with six continuations
                # from every state emitted 5-7 GB of behaviours per kind (43 GB for the property), more than a sandbox disk should be asked for
                sa = {1, 3} if sa else sa
                ba = ba[:3] if ba else ba
                conts = [conts[0], conts[2]]
            # ... and one whose first post-reset input is not finite (state that only matters on a non-finite step)
            conts.append([{"op": "reset", "i": 1}, {"op": "tok", "i": 1, "x": "NaN"}] + continuations(kind, n)[1])
            if kind in HLC_KINDS and kind not in BAR_ONLY:
                conts.append([{"op": "reset", "i": 1}, {"op": "tokb", "i": 1, "x": "NaN"}] + to_ops(kind, 1, [5, 8, 6, 9][: n + 2], style=1))
            unb = kind in UNBOUNDED
            depth = (n + 3 if q else n + 4) if unb else 10**6
            if kind in BAR_ONLY and n >= 2:
                depth = min(depth, n + 4)       # (one step more, with ten bars and four tokens, was 50 minutes of TLC for CE alone)
            toks = ({"NaN", "PInf"} if n == 1 else {"NaN"}) if q else (TOKS4 if n <= 2 and kind not in BAR_ONLY else ({"NaN", "PInf"} if n <= 2 else {"NaN"}))
            jobs.append(Job("%s_n%d" % (kind, n), {1: c}, salpha=sa, balpha=ba, toks=toks, resets={1},
                            conts=conts, maxdepth=depth + n + 3, noovf=False, invariants=inv,
                            extra_defs="FreeDepth == FreeDepthOf(%d)" % depth, extra_cfg="CONSTRAINT FreeDepth"))
    for kind in ("TR", "ATR", "FAST_STOCH", "SLOW_STOCH", "KC", "SMA", "RSI", "BB"):
        # the same kinds driven ONLY through Next<&T> before and after reset (state that one of the two paths maintains)
        n = 2
        bars5 = hlc_bars()[:5]
        cont = [{"op": "reset", "i": 1}] + [b_op(1, bar(x + 2, x, x + 1, v=1)) for x in (1, 3, 2, 5)]
        jobs.append(Job("%s_barpath_n2" % kind, {1: kcfg(kind, n, alt=1)}, balpha=bars5, toks={"NaN"}, resets={1}, conts=[cont], maxdepth=5 + 6,
                        noovf=False, invariants=inv, extra_defs="FreeDepth == FreeDepthOf(5)", extra_cfg="CONSTRAINT FreeDepth"))
    for kind in ("OBV", "MFI"):
        bars = [bar(2, 1, 2, v=BIG), bar(3, 2, 2, v=1), bar(2, 2, 2, v=2), bar(3, 1, 3, v=0)]
        cont = [{"op": "reset", "i": 1}] + [b_op(1, bar(x + 1, x, x + 1, v=1 + x % 2)) for x in (5, 7, 6, 9)]
        jobs.append(Job("%s_bigvol" % kind, {1: kcfg(kind, 2, alt=1)}, balpha=bars, resets={1}, conts=[cont], maxdepth=5 + 6,
                        noovf=False, invariants=inv, extra_defs="FreeDepth == FreeDepthOf(5)", extra_cfg="CONSTRAINT FreeDepth"))
    if q:
        # period 3 (a ring that wraps with room for stale slots) on a two-letter alphabet, one continuation
        for kind in ALL22:
            if kind in ("TR", "OBV"):
                continue
            sa, ba = free_alpha(kind)
            sa = {1, 3} if sa else sa
            ba = ba[:3] if ba else ba
            conts = [[{"op": "reset", "i": 1}] + continuations(kind, 3)[2]]
            depth = 6 if (kind in UNBOUNDED or kind in BAR_ONLY) else 10**6
            jobs.append(Job("%s_n3" % kind, {1: kcfg(kind, 3, alt=3)}, salpha=sa, balpha=ba, toks={"NaN"}, resets={1}, conts=conts, maxdepth=depth + 6,
                            noovf=False, invariants=inv, extra_defs="FreeDepth == FreeDepthOf(%d)" % depth, extra_cfg="CONSTRAINT FreeDepth"))
    # deep random histories: thousands of ops with non-finite values, spikes and repeated resets
    for kind in ALL22:
        for rep in range(1 if q else 3):
            n = rng.choice([1, 2, 3, 5, 8, 14])
            c = kcfg(kind, n, alt=rng.randint(0, 4))
            ops = [new_op(1)]
            total = 2500 if q else 9000
            while len(ops) < total:
                seg = rng.randint(1, 3 * n + 12)
                xs = stream_patterns(rng, seg, 1, 12, lively=True)
                if rng.random() < 0.3:
                    xs[rng.randrange(len(xs))] = BIG
                o = to_ops(kind, 1, xs, style=rng.randint(0, 1) if kind not in BAR_ONLY else 0)
                if rng.random() < 0.35:
                    o.insert(rng.randrange(len(o) + 1), {"op": "tok", "i": 1, "x": rng.choice(["NaN", "PInf", "NInf", "FMax", "NFMax", "Sub", "NZero"])})
                ops += o + [{"op": "reset", "i": 1}]
                if rng.random() < 0.15:
                    ops.append({"op": "reset", "i": 1})
            jobs.append(scripted("%s_deep%d_n%d" % (kind, rep, n), {1: c}, ops, noovf=False, invariants=inv))
    return {
        "min_by_kind": {"kinds": ALL22, "relational": 300}, "jobs": jobs, "parallel": 12,
        "rule": "for each of the 22 kinds and periods 1..3 (1..4 thorough): free TaSystem exploration over {1,2,3} (+ a 10^6 spike, + NaN/+-inf/f64::MAX "
                "tokens, + reset) reaches every ring/cursor/counter state of the implementation-shaped model, including tainted ones; from EVERY such state "
                "reset() followed by four fixed continuations of n+2 fresh values is explored; every transition is replayed: the real instance after "
                "reset() is compared step by step with a freshly constructed real instance (1e-12 relative) and with the spec's exact value; plus seeded deep "
                "histories of thousands of ops",
        "assumptions": COMMON_ASSUME + ["'indistinguishable from fresh' is observed through next() outputs, period(), multiplier() and Display only"],
        "stages": [trace_stage_factory(threads=8, ops_quick=400, ops_thorough=3000, faults=True, seed_salt=4)],
    }


def plan_C05(tier, seed):
    q = tier == "quick"
    rng = random.Random(seed * 49979687 + 5)
    jobs = []
    inv = ("Refines", "Safe")
    for kind in ALL22:
        n = rng.choice([2, 3])
        a, b = kcfg(kind, n, alt=1), kcfg(kind, n + rng.choice([1, 3, 5]), alt=2)
        if kind in ("TR", "OBV"):
            b = a
        sa, ba = free_alpha(kind)
        sa = {1, 3} if sa else sa
        ba = ba[:2] if ba else ba
        # every merge of short op sequences on the original, a clone taken at any point, an unrelated instance and a late fresh one
        jobs.append(Job("%s_merge" % kind, {1: a, 2: a, 3: b, 4: a}, initial={1, 3}, salpha=sa, balpha=ba, clones={(1, 2), (1, 3)}, news={4},
                        maxdepth=(6 if q else 7), view=False, emit="EmitLeaf", noovf=False, invariants=inv))
        # clone taken at every reachable state of the original, then interleaved continuations
        for n in ((1, 2, 3) if q else (1, 2, 3, 4)):
            if kind in ("TR", "OBV") and n > 1:
                continue
            a = kcfg(kind, n, alt=3)
            sa, ba = free_alpha(kind)
            if q and n == 3:          # quick: period 3 on a two-letter alphabet
                sa = {1, 3} if sa else sa
                ba = ba[:3] if ba else ba
            if q and n == 2 and ba:
                ba = ba[:5]
            conts = []
            for ct in (continuations(kind, n)[::2] if q else continuations(kind, n)):
                c2 = [{"op": "clone", "i": 1, "j": 2}]
                other = continuations(kind, n, i=3)[0]
                for k, o in enumerate(ct):
                    c2 += [o, dict(other[k], i=3), dict(o, i=2)] if k % 2 == 0 else [dict(o, i=2), o]
                conts.append(c2)
            # clone_from into an instance that already has a (longer) history: the source is reset and fed once, so it is
            # warming up while the destination's buffer is full of older data
            ct = continuations(kind, n)[0]
            c3 = [{"op": "clone", "i": 1, "j": 2}, dict(ct[0], i=2), dict(ct[1], i=2), {"op": "reset", "i": 1}, ct[1], {"op": "cloneinto", "i": 1, "j": 2}]
            for o in continuations(kind, n)[2]:
                c3 += [o, dict(o, i=2)]
            conts.append(c3)
            c4 = [{"op": "cloneinto", "i": 1, "j": 3}]           # into an instance with another period
            for o in continuations(kind, n)[1]:
                c4 += [o, dict(o, i=3)]
            conts.append(c4)
            unb = kind in UNBOUNDED
            depth = (n + 3) if unb or kind in BAR_ONLY else 10**6
            jobs.append(Job("%s_cl_n%d" % (kind, n), {1: a, 2: a, 3: b}, initial={1, 3}, salpha=sa, balpha=(ba[:5] if ba and n >= 3 else ba), conts=conts,
                            maxdepth=depth + 3 * n + 12, noovf=False, invariants=inv, extra_defs="FreeDepth == FreeDepthOf(%d)" % (depth + 1),
                            extra_cfg="CONSTRAINT FreeDepth", threads=16, free_ids={1}))
    # zeros of both signs (the harness's signed-zero unit feeds lattice 0 as -0.0 on every other call): which of two equal zeros a
    # window scan picks is invisible numerically but not bit-for-bit, so a clone that lays its ring out differently shows here
    for kind in ("SMA", "WMA", "SD", "MAD", "MIN", "MAX", "BB", "FAST_STOCH", "ROC", "ER", "EMA", "TR"):
        for n in (2, 3):
            if kind == "TR" and n > 2:
                continue
            a = kcfg(kind, n, alt=3)
            ct = [{"op": "clone", "i": 1, "j": 2}]
            for x in (-3, 0, -1, 0, 0, -2):
                ct += [s_op(1, x), s_op(2, x)]
            jobs.append(Job("%s_zeros_n%d" % (kind, n), {1: a, 2: a}, initial={1}, salpha={-1, 0}, conts=[ct], maxdepth=(8 if kind == "EMA" else 10**6) + 20,
                            noovf=False, invariants=inv, free_ids={1},
                            extra_defs="FreeDepth == FreeDepthOf(%d)" % (6 if kind == "EMA" else 10**6), extra_cfg="CONSTRAINT FreeDepth"))
    for kind in ALL22:
        # twins: two separately constructed instances (and a clone taken midway) with a longer window, fed the same stream
        n = rng.choice([5, 8, 20])
        a = kcfg(kind, n, alt=rng.randint(0, 4))
        L = 150 if q else 800
        ops = [new_op(1), new_op(2)]
        vals = to_ops(kind, 1, [rng.randint(20, 200) for _ in range(L)], style=rng.randint(0, 1) if kind not in BAR_ONLY else 0)
        for k, o in enumerate(vals):
            ops += [o, dict(o, i=2)] + ([dict(o, i=3)] if k >= L // 3 else [])
            if k == L // 3 - 1:
                ops.append({"op": "clone", "i": 1, "j": 3})
        jobs.append(scripted("%s_twins_n%d" % (kind, n), {1: a, 2: a, 3: a}, ops, noovf=False, invariants=inv))
    return {
        "min_by_kind": {"kinds": ALL22, "relational": 300}, "jobs": jobs, "parallel": 12,
        "rule": "per kind: (a) every interleaving (depth-bounded, no state merging) of feeds to an original, its clone taken at any point, an unrelated "
                "instance of another period and a late fresh instance; (b) a clone taken at every reachable state of the closed model followed by "
                "interleaved continuations; replayed on 16 threads; any two real instances with the same configuration and literal history must "
                "return bit-identical outputs, within a behaviour, across behaviours and across threads, and equal the spec's value",
        "assumptions": COMMON_ASSUME + ["real thread schedules are observed, not controlled; instances are never shared between threads"],
        "stages": [trace_stage_factory(threads=16, ops_quick=350, ops_thorough=3000, faults=False)],
    }


def plan_C06(tier, seed):
    q = tier == "quick"
    rng = random.Random(seed * 67867967 + 6)
    jobs = []
    inv = ("Refines", "Safe")
    for kind in ALL22:
        for n in ((1, 2, 3) if q else (1, 2, 3, 4)):
            if kind in ("TR", "OBV") and n > 1:
                continue
            a = kcfg(kind, n, alt=n + 1)
            sa, ba = free_alpha(kind, with_big=(n == 1))
            if kind in BAR_ONLY and n >= 3:
                ba = ba[:5]
            if q and n == 3:          # quick: period 3 on a two-letter alphabet
                sa = {1, 3} if sa else sa
                ba = ba[:3] if ba else ba
            if q and n == 2 and ba:
                ba = ba[:5]
            conts = []
            for k, ct in enumerate(continuations(kind, n)):
                if q and (k == 3 or (k == 4 and kind not in ("MAX", "FAST_STOCH", "SLOW_STOCH", "CE"))):
                    continue
                head = [{"op": "save", "i": 1, "s": 1}, {"op": "restore", "s": 1, "j": 2}]
                if k == 1:   # just reset
                    head = [{"op": "reset", "i": 1}] + head
                if k == 2:   # repeated round trip
                    head = head + [{"op": "save", "i": 2, "s": 2}, {"op": "restore", "s": 2, "j": 3}]
                body = []
                for o in ct:
                    body += [o, dict(o, i=2)] + ([dict(o, i=3)] if k == 2 else [])
                conts.append(head + body)
            unb = kind in UNBOUNDED
            depth = (n + 3) if unb or (kind in BAR_ONLY and n >= 2) else 10**6
            jobs.append(Job("%s_n%d" % (kind, n), {1: a, 2: a, 3: a}, initial={1}, slots={1, 2}, salpha=sa, balpha=ba, resets={1}, conts=conts,
                            maxdepth=depth + 3 * n + 14, noovf=False, invariants=inv, extra_defs="FreeDepth == FreeDepthOf(%d)" % depth,
                            extra_cfg="CONSTRAINT FreeDepth", free_ids={1}))
    for kind in ("FAST_STOCH", "SLOW_STOCH", "TR", "ATR", "KC", "SMA", "RSI"):
        # checkpoints of instances driven through Next<&T> only (the two paths may keep different state)
        bars5 = hlc_bars()[:5]
        body = []
        for x in (1, 3, 2, 5):      # interleaving with the explored bars: old highs and lows stay relevant for a while
            o = b_op(1, bar(x + 2, x, x + 1, v=1))
            body += [o, dict(o, i=2)]
        cont = [{"op": "save", "i": 1, "s": 1}, {"op": "restore", "s": 1, "j": 2}] + body
        jobs.append(Job("%s_barpath_n2" % kind, {1: kcfg(kind, 2, alt=1), 2: kcfg(kind, 2, alt=1)}, initial={1}, slots={1}, balpha=bars5, conts=[cont], maxdepth=4 + 12,
                        noovf=False, invariants=inv, extra_defs="FreeDepth == FreeDepthOf(4)", extra_cfg="CONSTRAINT FreeDepth", free_ids={1}))
    # random checkpoint positions in long histories; both copies continue for hundreds of steps
    for kind in ALL22:
        for rep in range(1 if q else 3):
            n = rng.choice([1, 2, 3, 5, 9, 14, 30])
            a = kcfg(kind, n, alt=rng.randint(0, 4))
            ops = [new_op(1)]
            live = [1]
            nxt, slot = 2, 1
            total = 2600 if q else 9000
            xs = stream_patterns(rng, total, 1, 12, lively=True)
            k = 0
            cps = sorted(rng.sample(range(5, total - 600), 3))
            # a spike (10^6 or 10^8 times the lattice step) has just left the window when a checkpoint is taken: parts of a composite
            # that keep "the same" running sum in different association orders then hold different residues, and a serialized
            # form that stores only one of them restores a different indicator
            # (10^8 only for n <= 14: the transcription keeps SMA / WMA sums as plain integers, and 30 x 10^8 does not fit TLC's 32 bits)
            spike_at = {max(0, cp - n - 3 - j): (100 * BIG if j == 0 and n <= 14 else BIG) for j, cp in enumerate(cps)}
            for pos, x in enumerate(xs):
                if pos in spike_at:
                    x = spike_at[pos]
                elif rng.random() < 0.004:
                    x = BIG
                for i in live:
                    ops += to_ops(kind, i, [x])
                k += 1
                if cps and k == cps[0]:
                    cps.pop(0)
                    src = rng.choice(live)
                    ops += [{"op": "save", "i": src, "s": slot}, {"op": "restore", "s": slot, "j": nxt}]
                    live.append(nxt)
                    nxt += 1
            ids = {i: a for i in range(1, nxt)}
            jobs.append(scripted("%s_long%d_n%d" % (kind, rep, n), ids, ops, slots={1}, noovf=False, invariants=inv))
    return {
        "min_by_kind": {"kinds": ALL22, "relational": 300}, "jobs": jobs, "parallel": 12,
        "rule": "for each of the 22 kinds and periods 1..3 (1..4 thorough): from EVERY reachable state of the closed model (fresh, warming, full, wrapped, "
                "just reset) the instance is serialized with bincode and deserialized (once, or twice in a row), and original and copies are fed four "
                "fixed continuations of n+2 values; plus seeded long histories with random checkpoints where all copies continue for hundreds of steps; "
                "copies must agree within 1e-12 relative, keep Display/period/multiplier, stay under the size bound, and equal the spec's value",
        "assumptions": COMMON_ASSUME + ["bincode 1.3 is the serialization format exercised (JSON cannot carry the infinities of a fresh Minimum/Maximum)"],
        "stages": [trace_stage_factory(threads=8, ops_quick=400, ops_thorough=3000, faults=False, seed_salt=6)],
    }


DOC_FIELD = {"MIN": "l", "MAX": "h"}     # generation hint only: comparisons are keyed by the spec's Eff(kind, input)
HLC_KINDS = ("TR", "ATR", "FAST_STOCH", "SLOW_STOCH", "KC", "CE", "CCI")


def plan_C10(tier, seed):
    q = tier == "quick"
    rng = random.Random(seed * 86028121 + 10)
    jobs = []
    inv = ("Refines", "Safe")
    for kind in ALL22:
        for rep in range(2 if q else 6):
            n = rng.choice([1, 2, 3, 4, 5, 9, 14])
            if rep == 1:
                n = 1          # period 1 always (an identity average, a one-sample window: where per-path shortcuts are tempting)
            a = kcfg(kind, n, alt=rng.randint(0, 4))
            length = 300 if q else 1500
            ops = [new_op(i) for i in (1, 2, 3, 4, 5)]
            lv = (1, 2, 3) if rep % 2 == 0 else (0, 1, 2, 3, 5, 8)
            for _ in range(length):
                f = {k: rng.choice(lv) for k in "ohlcv"}            # five independent fields
                if rng.random() < 0.3:
                    f["v"] = 0                                       # zero volume is a value like any other
                if rng.random() < 0.15:
                    f["h"] = f["l"] = f["c"]                         # a one-price bar in the middle of the stream
                if rng.random() < 0.25:                             # a consistent bar, so that DataItem accepts it
                    lo, mid, hi = sorted([f["h"], f["l"], f["c"]])
                    f.update(h=hi, l=lo, c=mid, o=rng.choice([lo, mid, hi]))
                ops.append(b_op(1, f))
                g = dict(f)                                          # same documented fields, everything else perturbed
                g["o"] = rng.choice(lv)
                if kind not in ("MFI", "OBV"):
                    g["v"] = rng.choice(lv) + 3 if f["v"] == 0 or rng.random() < 0.5 else 0
                if kind not in HLC_KINDS and kind != "MFI":
                    keep = DOC_FIELD.get(kind, "c")
                    for k in "hlc":
                        if k != keep and kind != "OBV":
                            g[k] = rng.choice(lv)
                    if kind == "OBV":
                        g["h"], g["l"] = rng.choice(lv), rng.choice(lv)
                ops.append(b_op(2, g))
                if kind not in BAR_ONLY:
                    if kind in HLC_KINDS:
                        x = rng.choice(lv)                           # scalar path vs one-price bar
                        ops.append(s_op(4, x))
                        ops.append(b_op(5, {"o": x, "h": x, "l": x, "c": x, "v": rng.choice(lv)}))
                    else:
                        ops.append(s_op(3, f[DOC_FIELD.get(kind, "c")]))   # Next<f64> on the documented field
            jobs.append(scripted("%s_r%d_n%d" % (kind, rep, n), {i: a for i in (1, 2, 3, 4, 5)}, ops, noovf=False, invariants=inv))
    return {
        "jobs": jobs, "parallel": 12,
        "min_counts": {"effective_input_compared": 22 * 100},
        "min_by_kind": {"kinds": ALL22, "relational": 100},
        "rule": "per kind, seeded scripted behaviours in which a bar stream with five independently varying fields (not only consistent OHLC) is fed to one "
                "instance, the same bars with every field the kind is NOT documented to read perturbed to a second, the documented field as a scalar to a third, "
                "and scalar vs one-price bars to a fourth and fifth; TLC executes TaSystem along the script and supplies Eff(kind, input) -- the numbers the kind is "
                "documented to read; real instances whose histories of Eff agree must agree within 1e-12 relative; DataItem (when the builder accepts the bar) must "
                "give bit-identical outputs to the user-defined bar type",
        "assumptions": COMMON_ASSUME + ["user types are represented by one local struct implementing Open/High/Low/Close/Volume and by DataItem"],
    }


RANGED = ["RSI", "FAST_STOCH", "SLOW_STOCH", "MFI", "ER"]


def regime_stream(rng, length, lo=1, hi=30, big=True):
    """positive prices: trending, oscillating, gapping, nearly flat stretches, spikes followed by small monotone ticks"""
    out = []
    x = rng.randint(lo, hi)
    while len(out) < length:
        r = rng.randint(0, 6)
        seg = rng.randint(4, 60)
        if r == 0:      # long monotone run
            d = rng.choice([-1, 1])
            for _ in range(seg):
                x = min(hi, max(lo, x + d)); out.append(x)
        elif r == 1:    # one-tick oscillation
            for k in range(seg):
                out.append(x + (k % 2) if x < hi else x - (k % 2))
        elif r == 2:    # gaps
            for _ in range(seg // 4 + 1):
                x = rng.choice([lo, hi, (lo + hi) // 2]); out.append(x)
        elif r == 3:    # nearly flat
            out += [x] * seg
        elif r == 4 and big:   # spike, then small monotone ticks (cancellation residue in running sums)
            out += [BIG, rng.randint(lo, hi), BIG]
            x = rng.randint(lo, lo + 3)
            for _ in range(seg):
                x = min(hi, x + 1); out.append(x)
        else:
            out += [rng.randint(lo, hi) for _ in range(seg)]
    return out[:length]


def plan_C07(tier, seed):
    q = tier == "quick"
    rng = random.Random(seed * 982451653 + 7)
    jobs = []
    inv = ("Refines", "Safe", "InRange")
    hb = hlc_bars()
    for n in (1, 2, 3, 4, 5):
        jobs.append(closed("RSI_n%d" % n, "RSI", n, salpha=P3, maxdepth=(7 if q else 9), invariants=inv))
        jobs.append(closed("FS_s_n%d" % n, "FAST_STOCH", n, salpha=P3 | ({BIG} if n <= 3 else set()), invariants=inv))
        jobs.append(closed("FS_b_n%d" % n, "FAST_STOCH", n, balpha=hb, maxdepth=(100 if n <= 3 else 6), invariants=inv))
        jobs.append(closed("ER_n%d" % n, "ER", n, salpha=P3 | ({BIG} if n <= 3 else set()), invariants=inv))
        if n <= (2 if q else 3):
            jobs.append(closed("MFI_n%d" % n, "MFI", n, balpha=OSC_BARS, resets={1}, invariants=inv))
        for e in ((1, 3) if q else (1, 2, 3, 5)):
            jobs.append(closed("SS_s_n%d_e%d" % (n, e), "SLOW_STOCH", n, n2=e, salpha=P3, maxdepth=(6 if q else 8), invariants=inv))
    for kind in RANGED:
        jobs.append(pristine_job(kind, 3, inv, alt=1))
        for rep in range(3 if q else 10):
            n = rng.choice([1, 2, 3, 5, 8, 14, 30, 100])
            length = 6000 if q else 40000
            c = cfg(kind, n, n2=rng.choice([1, 3, 9]))
            if kind == "MFI" or (kind in ("FAST_STOCH", "SLOW_STOCH") and rep % 2):
                xs = regime_stream(rng, length, big=False)
                ops = []
                for k, x in enumerate(xs):
                    lo_, hi_ = x - rng.randint(0, 1), x + rng.randint(0, 2)
                    ops.append(b_op(1, bar(hi_, max(lo_, 0), x, v=rng.choice([0, 1, 1, 2, 50, 1000]))))
            else:
                ops = [s_op(1, x) for x in regime_stream(rng, length)]
            # an instance is reused after reset(): a few resets at seeded positions
            for _ in range(rng.randint(2, 6)):
                ops.insert(rng.randrange(len(ops)), {"op": "reset", "i": 1})
            jobs.append(scripted("%s_reg%d_n%d" % (kind, rep, n), {1: c}, [new_op(1)] + ops, noovf=False, invariants=inv))
    return {
        "min_by_kind": {"kinds": RANGED, "relational": 1000}, "jobs": jobs, "parallel": 12,
        "rule": "closed / depth-bounded TaSystem models of RSI, FAST_STOCH, SLOW_STOCH, MFI, ER (spec invariant InRange: the reference is inside the documented "
                "range whenever defined) replayed per transition, plus seeded regime streams (trending, one-tick oscillation, gaps, nearly flat, 10^6..10^9 spikes "
                "followed by small monotone ticks, widely varying volume) of 6 000-40 000 steps; at every step at which the specification says the reference "
                "denominator is non-zero the real output must lie in [0,100] / [0,1] up to 1e-9 (MFI: 100*tau(t)*c when c <= 1000)",
        "assumptions": COMMON_ASSUME + ["under warped (monotone, non-affine) units only the specification's discrete facts (non-zero denominator, ties) are used"],
    }


def flat_tail(kind, level, L, zero_volume=False):
    if kind in BAR_ONLY:
        if zero_volume:   # moving prices without volume
            return [b_op(1, bar(level + 1 + (k % 3), level, level + (k % 2), v=0)) for k in range(L)]
        return [b_op(1, bar(level, level, level, v=2)) for _ in range(L)]
    return [s_op(1, level) for _ in range(L)]


def plan_C08(tier, seed):
    q = tier == "quick"
    rng = random.Random(seed * 472882027 + 8)
    jobs = []
    inv = ("Refines", "Safe")
    for kind in ALL22:
        for n in ((1, 2, 3, 4) if q else (1, 2, 3, 4, 5)):
            if kind in ("TR", "OBV") and n > 1:
                continue
            a = kcfg(kind, n, alt=n)
            sa, ba = free_alpha(kind, with_big=(n <= 2))
            if kind in BAR_ONLY and n >= 3:
                ba = ba[:4]
            L = n + 3
            conts = [flat_tail(kind, lv, L) for lv in (1, 2, 7)]
            if kind in ("MFI", "OBV"):
                conts.append(flat_tail(kind, 2, L, zero_volume=True))
            conts.append([{"op": "reset", "i": 1}] + flat_tail(kind, 3, L))       # flat from the very start of a reused instance
            if kind in HLC_KINDS and kind not in BAR_ONLY:                        # the same through Next<&T>: one-price bars
                conts.append([b_op(1, bar(2, 2, 2, v=1)) for _ in range(L)])
                # ... and both entry points of one instance alternating inside the flat stretch (one "previous close", not one per path)
                conts.append([(b_op(1, bar(3, 3, 3, v=1)) if k % 2 == 0 else s_op(1, 3)) for k in range(L + 2)])
            unb = kind in UNBOUNDED
            depth = (n + 2 if q else n + 3) if unb or (kind in BAR_ONLY and n >= 2) else 10**6
            jobs.append(Job("%s_n%d" % (kind, n), {1: a}, salpha=sa, balpha=ba, conts=conts, maxdepth=depth + n + 6, noovf=False, invariants=inv,
                            extra_defs="FreeDepth == FreeDepthOf(%d)" % depth, extra_cfg="CONSTRAINT FreeDepth"))
        # long flat stretches after seeded activity (long enough for exponential averages to underflow)
        for rep in range(2 if q else 6):
            n = [1, 2, 3, 4, 5, 6, 7, 8, 14, 30][(rep * 3 + ALL22.index(kind)) % 10]
            a = kcfg(kind, n, alt=rep)
            ops = [new_op(1)]
            for seg in range(3):
                act = stream_patterns(rng, rng.randint(0, 3 * n + 10), 1, 9, lively=True)
                if act and rng.random() < 0.5:
                    act[rng.randrange(len(act))] = BIG
                ops += to_ops(kind, 1, act)
                if seg > 0 and rng.random() < 0.5:
                    ops.append({"op": "reset", "i": 1})
                L = (1500 if seg == 2 else rng.randint(1, 3 * n + 5)) if q else (5000 if seg == 2 else rng.randint(1, 200))
                ops += flat_tail(kind, rng.choice([1, 3, 7, 9]), L, zero_volume=(kind in ("MFI", "OBV") and seg == 1))
            jobs.append(scripted("%s_flat%d_n%d" % (kind, rep, n), {1: a}, ops, noovf=False, invariants=inv))
    # a sweep over flat LEVELS: "exactly the neutral value" has to hold at every price level, and whether a re-associated formula
    # returns exactly 0 (or 50) depends on the digits of the level (100*x/x - 100 is non-zero at 0.17 and 10.29 but not at 12.3):
    # some hundred seeded levels per kind, each held for n + 3 inputs, at the cent, 1e-4, 0.1 and 0.3 units among others
    for kind in ("ROC", "FAST_STOCH", "SLOW_STOCH", "TR", "CCI", "MAD", "SD", "BB", "ER", "RSI", "ATR", "KC"):
        for n in ((1, 3) if q else (1, 2, 3, 7)):
            if kind == "TR" and n > 1:
                continue
            levels = rng.sample(range(1, 5000), 150 if q else 600)
            ops = [new_op(1)]
            for lv in levels:
                ops += flat_tail(kind, lv, n + 3)
            jobs.append(scripted("%s_levels_n%d" % (kind, n), {1: kcfg(kind, n, alt=n)}, ops, noovf=False, invariants=inv))
    return {
        "min_by_kind": {"kinds": ALL22, "relational": 300}, "jobs": jobs, "parallel": 12,
        "rule": "for each of the 22 kinds and periods 1..4 (1..5 thorough): from EVERY reachable state of the closed model (every cursor position and window content, "
                "the empty prefix included) a flat stretch of n+3 inputs at three price levels (and a zero-volume stretch at moving prices for MFI/OBV) is explored; "
                "plus seeded activity followed by flat stretches of 1 500-5 000 bars for periods 1..8, 14, 30; plus 150 (600) seeded flat levels out of 1..4999 per kind "
                "with an exact neutral value, each held for n+3 inputs (cent and 1e-4 units among others); at every step at which the specification marks the "
                "window degenerate the real output must be finite, in range, and neutral where a neutral value is defined; units include 0.1, 0.3, 1e-4 (running-sum residue)",
        "assumptions": COMMON_ASSUME + ["'degenerate' is decided by the specification on the lattice (all prices in the window equal / zero money flow in the window)"],
    }


def plan_C09(tier, seed):
    q = tier == "quick"
    rng = random.Random(seed * 573259391 + 9)
    jobs = []
    inv = ("Refines", "Safe", "NonNeg", "EmaConvex")
    nonneg = [Fr(0), Fr(1, 2), Fr(2), Fr(1000)]
    bars = hlc_bars()
    for kind in ("SMA", "WMA", "SD", "MAD", "MIN", "BB"):
        for n in (1, 2, 3, 4):
            jobs.append(closed("%s_n%d" % (kind, n), kind, n, salpha=(A5 | {BIG}) if n <= 3 else A3, m=nonneg[n % 4], invariants=inv,
                               resets=({1} if n <= 3 else ())))
    for kind in ("SMA", "WMA", "EMA", "BB", "SD"):
        # the same bounds for a clone taken at any reachable state and then stepped on its own
        n = 3
        conts = [[{"op": "clone", "i": 1, "j": 2}] + [dict(o, i=2) for o in continuations(kind, n)[k]] for k in (0, 2)]
        jobs.append(Job("%s_clone_n3" % kind, {1: kcfg(kind, n, alt=2), 2: kcfg(kind, n, alt=2)}, initial={1}, salpha={-1, 2, 4}, conts=conts, free_ids={1},
                        maxdepth=(6 if kind == "EMA" else 10**6), noovf=False, invariants=inv,
                        extra_defs="FreeDepth == FreeDepthOf(%d)" % (5 if kind == "EMA" else 10**6), extra_cfg="CONSTRAINT FreeDepth"))
    for n in (1, 2, 3, 5):
        jobs.append(closed("EMA_n%d" % n, "EMA", n, salpha=A5, maxdepth=(6 if q else 8), invariants=inv))
        jobs.append(closed("ATR_n%d" % n, "ATR", n, balpha=bars, maxdepth=(4 if q else 5), invariants=inv))
        for j, m in enumerate(nonneg if not q else [nonneg[n % 4], nonneg[(n + 1) % 4]]):
            jobs.append(closed("KC_n%d_m%d" % (n, j), "KC", n, m=m, balpha=bars, maxdepth=(4 if q else 5), invariants=inv))
            jobs.append(closed("CE_n%d_m%d" % (n, j), "CE", n, m=m, balpha=bars, maxdepth=(4 if q else 5), invariants=inv))
        # a reused instance: reset at any point of any short history, then a different continuation
        jobs.append(closed("CE_r_n%d" % n, "CE", n, m=Fr(0), balpha=bars[:4] + [bar(9, 7, 8), bar(7, 6, 6)], resets={1}, maxdepth=(6 if q else 7), invariants=inv))
    jobs.append(closed("TR_b", "TR", 1, balpha=bars, maxdepth=4, invariants=inv))
    for t3 in [(1, 2, 3), (3, 1, 2), (2, 2, 1), (5, 3, 2)]:
        jobs.append(closed("MACD_%d_%d_%d" % t3, "MACD", t3[0], n2=t3[1], n3=t3[2], salpha=A5, maxdepth=(5 if q else 6), invariants=inv))
        # (noovf off: steps on which the percentage is undefined - a slow average of exactly 0 - are explored too; histogram = line - signal
        #  is a statement about the outputs whatever their value)
        jobs.append(closed("PPO_%d_%d_%d" % t3, "PPO", t3[0], n2=t3[1], n3=t3[2], salpha=(A5 if t3[0] != t3[1] else P3), maxdepth=(5 if q else 6), invariants=inv, noovf=False))
    # cancellation-engineered streams: spikes / large values, then flat or nearly flat stretches
    for kind in ("SMA", "WMA", "SD", "MAD", "MIN", "BB", "EMA", "ATR", "KC", "CE", "MACD", "PPO", "TR"):
        for rep in range(2 if q else 6):
            n = rng.choice([1, 2, 3, 5, 9, 20, 50])
            a = cfg(kind, n, n2=rng.choice([1, 5, 26]), n3=rng.choice([1, 9]), m=rng.choice(nonneg))
            ops = [new_op(1)]
            total = 4000 if q else 20000
            xs = []
            while len(xs) < total:
                xs += [BIG if n <= 30 else 12] * rng.randint(1, 3) + regime_stream(rng, rng.randint(5, 300), 1, 12, big=False)
                xs += [rng.randint(1, 12)] * rng.randint(n, 3 * n + 3)
            ops += to_ops(kind, 1, xs[:total], style=(1 if kind in ("ATR", "KC", "TR") and rep % 2 else 0))
            for _ in range(rng.randint(1, 5)):
                ops.insert(rng.randrange(1, len(ops)), {"op": "reset", "i": 1})
            jobs.append(scripted("%s_canc%d_n%d" % (kind, rep, n), {1: a}, ops, noovf=False, invariants=inv))
    # a very long window: the mean-inside-window bound for period 100 000 (window minimum / maximum from Streams.tla)
    for kind in ("WMA", "SMA"):
        n = 100000
        segs = [([{"op": "s", "x": 10}, {"op": "s", "x": 11}], 52000, 0), ([{"op": "s", "x": 14}, {"op": "s", "x": 12}, {"op": "s", "x": 13}], 3000, 0)]
        tot = 2 * 52000 + 3 * 3000
        jobs.append(stream_job("%s_window_100000" % kind, kind, cfg(kind, n), segs, {1, 2, 1000, n - 1, n, n + 1, n + 3000, tot - 1, tot}, prop="C09"))
    return {
        "jobs": jobs, "parallel": 12,
        "rule": "spec invariants NonNeg / EmaConvex (variance, MAD, ATR >= 0; histogram = line - signal; lower <= average <= upper for multiplier >= 0; an EMA is "
                "a convex combination of its history) model-checked on closed / depth-bounded models; every transition and seeded cancellation-engineered streams "
                "(10^6..10^17 spikes followed by flat and nearly flat stretches, offsets up to 1e9..1e12, multipliers 0, 1/2, 2, 1000) replayed: the inequalities are "
                "evaluated on the real outputs, with the window/history minimum and maximum supplied by the specification",
        "assumptions": COMMON_ASSUME,
    }


FAULT_TOKS = {"NaN", "PInf", "NInf", "FMax", "NFMax", "Sub", "NZero"}
BAD_BARS = [bar(1, 3, 2), bar(3, 1, 5), bar(2, 2, 0, v=0), bar(1, 2, 3, o=9, v=3)]     # low > high, close outside, ...


def plan_C12(tier, seed):
    q = tier == "quick"
    rng = random.Random(seed * 633910099 + 12)
    jobs = []
    inv = ("Safe",)
    for kind in ALL22:
        for n in ((1, 2) if q else (1, 2, 3)):
            if kind in ("TR", "OBV") and n > 1:
                continue
            a = kcfg(kind, n, alt=n + 2)
            sa = set() if kind in BAR_ONLY else {2}
            ba = BAD_BARS[:2] + [bar(3, 1, 2)] if kind in BAR_ONLY or kind in HLC_KINDS else []
            # (kinds with both a scalar and a bar path have 19 ops per step: one step less for them in the thorough tier)
            toks = {"NaN", "PInf", "NFMax", "NZero"} if (sa and ba and q) else FAULT_TOKS
            jobs.append(Job("%s_f_n%d" % (kind, n), {1: a}, salpha=sa, balpha=(ba[:2] if (sa and ba and q) else ba), toks=toks, resets={1}, maxdepth=(5 if q or (sa and ba) else 6),
                            noovf=False, invariants=inv, view=False, emit="EmitLeaf"))
        # every period 1..64 for 3*period+3 calls with a fault injected at a different cursor position each time
        ids = {}
        ops = []
        periods = list(range(1, 65)) + ([] if q else [rng.randint(65, 4096) for _ in range(6)] + [4096])
        if kind == "WMA" and not q:
            # the transcription keeps WMA's weighted sum as a plain integer and a non-finite input as a code near 10^6: code x weight
            # must fit TLC's 32 bits now that scripts run to their end after a token (thorough C12 tool error at period ~2000)
            periods = list(range(1, 65)) + [rng.randint(65, 200) for _ in range(6)] + [200]
        if kind in ("TR", "OBV"):
            periods = [1]
        for k, n in enumerate(periods):
            i = k + 1
            ids[i] = kcfg(kind, n, alt=k)
            ops.append(new_op(i))
            calls = 3 * n + 3
            fault_at = {rng.randrange(calls) for _ in range(3)} | {(k * 7) % calls}
            xs = stream_patterns(rng, calls, 1, 9, lively=True)
            for j, x in enumerate(xs):
                if j in fault_at:
                    ops.append({"op": "tok", "i": i, "x": rng.choice(sorted(FAULT_TOKS))})
                elif kind in BAR_ONLY or (kind in HLC_KINDS and j % 3 == 0):
                    ops.append(b_op(i, rng.choice(BAD_BARS) if rng.random() < 0.3 else rand_bar(rng)))
                else:
                    ops.append(s_op(i, x))
            ops.append({"op": "reset", "i": i})
            ops += to_ops(kind, i, xs[:3])
            ops.append({"op": "drop", "i": i})
        jobs.append(scripted("%s_periods" % kind, ids, ops, noovf=False, invariants=inv))
        jobs[-1].replay_args = ["--max-units", "3" if q else "8"]      # totality does not hinge on the price unit: (1,0), (0.1,0), (2^-20,0)
    return {
        "min_by_kind": {"kinds": ALL22, "relational": 1000}, "jobs": jobs, "parallel": 12,
        "rule": "(a) per kind and period 1..2 (1..3): EVERY sequence up to depth 4 (5) over {ordinary value, NaN, +inf, -inf, +-f64::MAX, subnormal, -0.0, reset, "
                "bars with low > high / close outside} ; (b) per kind every period 1..64 (plus sampled ones up to 4096) run for 3*period+3 calls with faults injected at "
                "varying cursor positions, then reset and reuse; spec invariant Safe (every ring index in range, counters within bounds) holds on all of them; in the "
                "real crate (built with overflow checks and debug assertions) next, reset, clone, Display, Debug, bincode and serde_json must return after every op",
        "assumptions": ["memory safety itself is not observed beyond the absence of panics (safe Rust, bounds-checked)", "TLC and serde_json are trusted"],
        "stages": [cursor_proof_stage, trace_stage_factory(threads=8, ops_quick=700, ops_thorough=4000, faults=True)],
    }


def plan_C17(tier, seed):
    q = tier == "quick"
    rng = random.Random(seed * 715225739 + 17)
    jobs = []
    inv = ("Refines", "Safe")
    FORGET = ["SMA", "WMA", "SD", "MAD", "MIN", "MAX", "FAST_STOCH", "BB", "CCI", "ROC", "ER", "MFI"]
    for kind in FORGET:
        for n in ((1, 2, 3) if q else (1, 2, 3, 4)):
            a = kcfg(kind, n, alt=n)
            sa, ba = free_alpha(kind, with_big=True)
            if kind in ("ROC", "ER"):
                sa = {0, 1, 2, BIG}
            if kind in ("SMA", "WMA", "CCI", "MAD"):
                sa = {-2, 0, 1, BIG} if sa else sa
            if kind in BAR_ONLY:
                ba = ba[:4] + [bar(BIG, 1, 2, v=1)]
            extra = (2 if q else 3) if kind not in BAR_ONLY else (1 if q else 2)
            depth = Memory_of(kind, n) + 1 + extra
            jobs.append(Job("%s_n%d" % (kind, n), {1: a}, salpha=sa, balpha=ba, maxdepth=depth + 1, noovf=False, invariants=inv, view=False))
        for rep in range(2 if q else 6):
            n = rng.choice([1, 2, 3, 5, 9, 14, 30, 64])
            a = kcfg(kind, n, alt=rep)
            total = 1500 if q else 8000
            xs = []
            while len(xs) < total:
                xs += regime_stream(rng, rng.randint(n + 2, 4 * n + 40), 0 if rep % 2 else 1, 15, big=(n <= 30))
            if kind in BAR_ONLY:     # valid bars with repeated typical prices, zero-volume moves and an occasional spike
                bs = rand_bars(rng, total)
                for k in range(0, total, rng.randint(40, 200)):
                    bs[k] = bar(BIG, 1, 2, v=1) if n <= 30 else bs[k]
                ops = [b_op(1, b) for b in bs]
            else:
                ops = to_ops(kind, 1, xs[:total])
            jobs.append(scripted("%s_hist%d_n%d" % (kind, rep, n), {1: a}, [new_op(1)] + ops, noovf=False, invariants=inv))
        # every period of a range (code paths that depend on period mod 4, on a power of two, on a small-buffer threshold ...): one
        # instance per period, a spike early on, then 3 windows of ordinary values
        ids, ops = {}, []
        for k, n in enumerate(list(range(1, 18)) + [20, 24, 31, 32, 33] + ([] if q else list(range(18, 20)) + list(range(34, 70)))):
            i = k + 1
            ids[i] = kcfg(kind, n, alt=k)
            xs = regime_stream(rng, 3 * n + 20, 1, 15, big=False)
            xs[min(n // 2 + 1, len(xs) - 1)] = BIG
            ops += [new_op(i)] + to_ops(kind, i, xs) + [{"op": "drop", "i": i}]
        jobs.append(scripted("%s_periods" % kind, ids, ops, noovf=False, invariants=inv))
    return {
        "min_by_kind": {"kinds": ["SMA", "WMA", "SD", "MAD", "MIN", "MAX", "FAST_STOCH", "BB", "CCI", "ROC", "ER", "MFI"], "values": 300}, "jobs": jobs, "parallel": 12,
        "rule": "for the 12 windowed kinds: every input sequence (no state merging) of length Memory+1 .. Memory+n+3 over {1,2,3, 10^6 spike} for periods 1..3 (1..4), and "
                "seeded long histories with spikes; the specification's reference state IS the window of the last Memory(kind,p) inputs (n, or n+1 for ROC/ER/MFI), and the "
                "transcribed algorithm is checked to refine it; for every behaviour the real instance fed the whole history is compared with a fresh real instance fed only "
                "the last Memory inputs: exactly for MIN/MAX/FAST_STOCH, within tau(t)*M (times the condition number) otherwise",
        "assumptions": COMMON_ASSUME,
    }


def Memory_of(kind, n):
    return n + 1 if kind in ("ROC", "ER", "MFI") else n


def plan_C11(tier, seed):
    q = tier == "quick"
    mod = """---- MODULE MC_ctor ----
EXTENDS Ctor
mcPMax == 4096
mcTMax == %d
mcSample == %d
====
""" % ((9 if q else 24), (7 if q else 1))
    cfgt = """CONSTANTS
 PMax <- mcPMax
 TMax <- mcTMax
 Sample <- mcSample
INIT Init
NEXT Next
INVARIANT EmitCase
CHECK_DEADLOCK FALSE
"""
    return {
        "jobs": [RawJob("ctor", mod, cfgt, tables="ctor")], "parallel": 1, "exhaustive": not q,
        "rule": "Ctor.tla enumerates every constructor call as an initial state: single-period kinds over 0..4096 (every 7th beyond 64 in the quick tier), all tuples "
                "over 0..24 (0..9 quick) for the multi-period kinds, the boundary tokens 2^31, 2^32, 2^53+1, usize::MAX-1, usize::MAX in every position for the "
                "kinds that allocate no window, and eight multipliers (0, -1, 1/2, 2, 3, 1000, -0.0, NaN); TLC prints the expected result, Display text and period(); "
                "the real constructor runs under catch_unwind, accessors and Display are compared after new and again after next/reset/next; Default::default() is "
                "compared with new(documented defaults) bit by bit on a 30-step stream; a case is distinct by (kind, period arguments, multiplier)",
        "assumptions": ["windowed kinds are constructed with periods up to 4096 only ('as far as memory allows' is not pushed further)", "TLC, the Json module and serde_json are trusted"],
    }


def plan_C16(tier, seed):
    q = tier == "quick"
    jobs = []
    base = """---- MODULE MC_%s ----
EXTENDS DataItem
mcVals == %s
mcInt == %s
mcMaxPath == %d
%s
====
"""
    cfg_state = """CONSTANTS
 Vals <- mcVals
 IntMode <- mcInt
 MaxPath <- mcMaxPath
INIT Init
NEXT Next
VIEW view
INVARIANT EmitState
INVARIANT NaNRejected
INVARIANT LastWins
CHECK_DEADLOCK FALSE
"""
    cfg_trans = cfg_state.replace("INVARIANT EmitState\n", "ACTION_CONSTRAINT %s\n")
    # every slot state of the full ten-point lattice: 11^5 states, one setter path + build + getters each
    jobs.append(RawJob("lattice_states", base % ("lattice_states", "0..9", "FALSE", 1000, ""), cfg_state, tables="dataitem"))
    # every transition (alternative orders, repeated setters) on a sub-lattice {-1, -0.0, +0.0, 1, NaN} (quick) / a seeded sample on the full one
    if q:
        jobs.append(RawJob("sub_trans", base % ("sub_trans", "{2, 3, 4, 5, 9}", "FALSE", 1000, ""), cfg_trans % "EmitTrans", tables="dataitem"))
    else:
        jobs.append(RawJob("full_trans", base % ("full_trans", "0..9", "FALSE", 1000, "Samp == RandomElement(1..12) # 1 \\/ EmitTrans"),
                           cfg_trans % "Samp", tables="dataitem"))
        jobs.append(RawJob("sub_trans", base % ("sub_trans", "{0, 2, 3, 4, 5, 8, 9}", "FALSE", 1000, ""), cfg_trans % "EmitTrans", tables="dataitem"))
    # finite tuples: integers mapped to 0.37*k by the harness (every order type of small integers incl. negative volume)
    jobs.append(RawJob("ints", base % ("ints", "{-3, 0, 1, 2, 5}" if q else "{-3, -1, 0, 1, 2, 5, 7}", "TRUE", 1000, ""), cfg_state, tables="dataitem"))
    return {
        "jobs": jobs, "parallel": 4, "exhaustive": True,
        "rule": "DataItem.tla explored completely: all 11^5 = 161 051 slot states over the lattice {-inf,-2,-1,-0.0,0.0,1,2,3,+inf,NaN} x {unset} (every subset of "
                "setters, every 5-tuple), one setter path to each state, then build() and the getters; every transition (other orders, repeated setters) on a "
                "sub-lattice (a seeded 1/12 sample of the 8 million transitions of the full lattice in the thorough tier); finite integer tuples; the real builder "
                "must return exactly the spec's result, getters bit-exactly the last value set, clone == item, bincode round trip == item, and SMA/MIN/MAX/TR fed the "
                "item must read close/low/high; a case is distinct by (slot state, setter path)",
        "assumptions": ["the ten-point lattice stands for all floats: every order type of four prices and every sign class of volume occurs", "TLC, the Json module and serde_json are trusted"],
    }


def stream_job(name, kind, c, segs, samples, prop="C13", reset_at=0):
    """segs: [(pattern ops, reps)], ops as {"op":"s","x":k} / {"op":"b",...}; builds the Streams.tla model + the harness schedule"""
    def rec(o):
        if o["op"] == "s":
            return {"ty": "s", "x": o["x"]}
        return {"ty": "b", "o": o["o"], "h": o["h"], "l": o["l"], "c": o["c"], "v": o["v"]}
    segs = [(g[0], g[1], g[2] if len(g) > 2 else 0) for g in segs]
    sched_tla = "<<" + ",\n  ".join("[pat |-> %s, reps |-> %d, ramp |-> %s]" % (tla([rec(o) for o in pat]), reps, tla(ramp)) for pat, reps, ramp in segs) + ">>"
    p = {"n": c["n"], "n2": c["n2"], "n3": c["n3"], "m": c["m"], "seed": c["seed"]}
    mod = """---- MODULE MC_%s ----
EXTENDS Streams
mcSched == %s
mcKind == "%s"
mcP == %s
mcSamples == %s
mcResetAt == %d
====
""" % (name, sched_tla, kind, tla(p), tla(set(samples)), reset_at)
    cfgt = """CONSTANTS
 Sched <- mcSched
 Kind <- mcKind
 P <- mcP
 Samples <- mcSamples
 ResetAt <- mcResetAt
INIT Init
NEXT Next
INVARIANT EmitExpect
CHECK_DEADLOCK FALSE
"""
    mem = c["n"] + 1 if kind in ("ROC", "ER", "MFI") else c["n"]
    sched = {"prop": prop, "kind": kind, "per": [c["n"], c["n2"], c["n3"]], "m": [c["m"].numerator, c["m"].denominator],
             "seed": [c["seed"].numerator, c["seed"].denominator], "mem": mem, "reset_at": reset_at,
             "sched": [{"pat": pat, "reps": reps, "ramp": ramp} for pat, reps, ramp in segs]}
    return RawJob(name, mod, cfgt, sched=sched)


def c13_segments(rng, kind, n, total, lo, hi):
    """regimes of C13: pseudo-random walk pattern repeated, alternating extremes, spikes, plateaus, saw-tooth (cycles that do and do not divide n)"""
    def mk(xs):
        if kind in BAR_ONLY:
            return [b_op(1, bar(min(hi, x + 1), max(lo, x - (k % 2)), x, o=x, v=(1 + (k * 7 + x) % 4))) for k, x in enumerate(xs)]
        return [s_op(1, x) for x in xs]
    segs = []
    nseg = rng.randint(4, 7)
    per = total // nseg
    for j in range(nseg):
        r = (j + rng.randint(0, 5)) % 6
        if r == 0:
            pat = rand_walk_wide(rng, rng.randint(50, 500), lo, hi)
        elif r == 1:
            c = rng.choice([2, 2 * n, n]) if n > 1 else 2
            pat = [lo if (k * 2 // c) % 2 == 0 else hi for k in range(c)] if c > 1 else [lo, hi]
        elif r == 2:
            base = rng.randint(lo, hi)
            pat = [base] * rng.randint(3, 3 * n + 5) + [hi if base < (lo + hi) // 2 else lo]
        elif r == 3:
            pat = [rng.randint(lo, hi)] * rng.randint(1, 4)
        elif r == 4:
            c = rng.choice([n, n + 1, 2 * n, 7, 3]) if n > 1 else 3
            step = max(1, (hi - lo) // max(c, 1))
            pat = [min(hi, lo + step * (k % c)) for k in range(c)]
        else:
            pat = [rng.randint(lo, hi) for _ in range(rng.randint(20, 300))]
        for o in mk(pat):
            o.pop("i", None)
        reps = max(1, per // len(pat))
        segs.append(([{k: v for k, v in o.items() if k != "i"} for o in mk(pat)], reps))
    return segs


def rand_walk_wide(rng, length, lo, hi):
    x = rng.randint(lo, hi)
    out = []
    span = max(1, (hi - lo) // 20)
    for _ in range(length):
        x = min(hi, max(lo, x + rng.randint(-span, span)))
        out.append(x)
    return out


def plan_C13(tier, seed):
    q = tier == "quick"
    rng = random.Random(seed * 817504243 + 13)
    jobs = []
    total = 200000 if q else 2000000
    for kind in ["SMA", "WMA", "SD", "BB", "MAD", "CCI", "MFI", "MIN", "MAX"]:
        combos = [(rng.choice([2, 3, 5, 9, 14, 20, 33, 40]), 1, 1000), (rng.choice([100, 256, 500, 1000]), 1, 46), (1, 1, 1000)]
        if not q:
            combos += [(rng.choice([1, 2, 4, 7, 12, 26, 40]), 1, 1000), (rng.choice([64, 128, 333, 1000]), 1, 46), (rng.choice([9, 20]), 10, 1000)]
        for k, (n, lo, hi) in enumerate(combos):
            c = cfg(kind, n, m=rng.choice([Fr(2), Fr(1, 2), Fr(3)]))
            segs = c13_segments(rng, kind, n, total, lo, hi)
            tot = sum(len(p) * r for p, r in segs)
            samples = {tot, tot - 1, max(1, tot // 2)}
            pos = 0
            for p, r in segs:                      # around every regime switch
                for d in (1, 2, n, n + 1, n + 2, 2 * n + 3):
                    if pos + d <= tot:
                        samples.add(pos + d)
                pos += len(p) * r
            for base in range(65536, tot, 65536):  # accumulators that resynchronise at round step counts
                for d in (0, 1, n + 1, 2 * n + 5, 40):
                    if base + d <= tot:
                        samples.add(base + d)
            while len(samples) < 70:
                samples.add(int(10 ** (rng.random() * 6.3)) % tot + 1)
            jobs.append(stream_job("%s_s%d_n%d" % (kind, k, n), kind, c, segs, samples))
    return {
        "jobs": jobs, "parallel": 6,
        "rule": "Streams.tla: per kind (SMA, WMA, SD, BB, MAD, CCI, MFI, MIN, MAX) seeded schedules of 4-7 regimes (repeated pseudo-random walk patterns, alternating "
                "extremes, spikes, plateaus, saw-tooths whose cycle does or does not divide the period) totalling 2*10^5 (quick) / 2*10^6 (thorough) inputs, on a "
                "three-decade lattice 1..1000 with periods <= 40 and on 46 levels with periods up to 1000; TLC states the exact expectation for the window at ~70 "
                "sampled steps (regime switches, multiples of 65536, log-uniform, the end) without stepping; the harness expands the schedule into real calls at every "
                "price unit, compares at the sampled steps (MIN/MAX exactly) and checks at EVERY step that SD / the bands are not NaN or negative",
        "assumptions": COMMON_ASSUME + ["the joint quantifier (period 1000 x three-decade band) is split for the variance-type references because TLC's integers are 32-bit",
                                        "the harness's expansion of a schedule is checked against the specification's StreamAt at every sampled step"],
    }


def all_seqs(alpha, L):
    out = [[]]
    for _ in range(L):
        out = [s + [x] for s in out for x in alpha]
    return out


def plan_C14(tier, seed):
    q = tier == "quick"
    rng = random.Random(seed * 961748927 + 14)
    jobs = []
    # (a) the theorem on the specification: RefOut(a*h + b) is RefOut(h) moved as its dimension says
    for kind in ALL22:
        if kind == "RSI":
            continue
        combos = [(2, 0), (3, 0)] + ([(2, -1), (3, 2), (1, 2)] if kind not in ("ROC", "PPO", "MFI", "OBV") else [])
        if q:
            combos = combos[:1] + combos[-1:]
        for n in ((2,) if q else (1, 2, 3)):
            if kind in ("TR", "OBV") and n > 2:
                continue
            c = kcfg(kind, n, alt=n)
            if c["m"] < 0:
                c["m"] = Fr(2)
            for (ca, cb) in combos:
                conts = []
                if kind in BAR_ONLY or kind in ("FAST_STOCH", "KC", "ATR", "TR"):
                    alpha = (OSC_BARS if kind in ("CCI", "MFI", "OBV") else hlc_bars())[: (6 if q else 9)]
                    for sq in all_seqs(range(len(alpha)), 3 if q else 4):
                        ct = []
                        for ix in sq:
                            b = alpha[ix]
                            ct.append(b_op(1, b))
                            ct.append(b_op(2, {"o": ca * b["o"] + cb, "h": ca * b["h"] + cb, "l": ca * b["l"] + cb, "c": ca * b["c"] + cb, "v": b["v"]}))
                        conts.append(ct)
                else:
                    for sq in all_seqs((1, 2, 3), 4 if q else 5):
                        ct = []
                        for x in sq:
                            ct += [s_op(1, x), s_op(2, ca * x + cb)]
                        conts.append(ct)
                jobs.append(Job("cov_%s_n%d_%d_%d" % (kind, n, ca, cb + 9), {1: c, 2: c}, conts=conts, free_ids=set(), noovf=True,
                                invariants=("Refines", "Covariant"), cov=(ca, cb), emit=None))
    for n in (1, 2, 3):
        conts = []
        for sq in all_seqs((-2, 0, 1, 3), 4):
            ct = []
            for x in sq:
                ct += [s_op(1, x), s_op(2, -x)]
            conts.append(ct)
        jobs.append(Job("dual_n%d" % n, {1: cfg("MIN", n), 2: cfg("MAX", n)}, conts=conts, free_ids=set(), invariants=("Refines", "MinMaxDual"), cov=(-1, 0), emit=None))
    # (b) the relation on the real code: TLC-generated behaviours re-run at pairs of related price units
    inv = ("Refines", "Safe")
    for kind in ALL22:
        if kind == "RSI":
            continue
        for n in ((1, 2, 3) if q else (1, 2, 3, 4)):
            if kind in ("TR", "OBV") and n > 1:
                continue
            a = kcfg(kind, n, alt=n + 1)
            sa, ba = free_alpha(kind)
            if kind in ("MIN", "MAX", "SMA", "EMA"):
                sa = {-3, -1, 2}            # any sign (Maximum(x) = -Minimum(-x) is checked on the Minimum runs)
            unb = kind in UNBOUNDED
            depth = (n + 3) if unb or kind in BAR_ONLY else 10**6
            if kind in BAR_ONLY and n >= 3:
                ba = ba[:5]
            jobs.append(Job("%s_n%d" % (kind, n), {1: a}, salpha=sa, balpha=ba, maxdepth=depth, noovf=False, invariants=inv, threads=8))
        for rep in range(2 if q else 4):
            n = rng.choice([2, 5, 9, 14, 30])
            a = kcfg(kind, n, alt=rep + 1)
            if rep % 2 == 1:
                a["m"] = Fr(3)                       # wide bands: lower band below zero on low prices
            L = 200 if q else 1200
            if kind in BAR_ONLY or rep % 2 == 1:
                ops = [b_op(1, b) for b in rand_bars(rng, L)]
            else:
                ops = [s_op(1, x) for x in stream_patterns(rng, L, 1, 30, lively=True)]
            jobs.append(scripted("%s_str%d_n%d" % (kind, rep, n), {1: a}, [new_op(1)] + ops, noovf=False, invariants=inv))
        if kind in HLC_KINDS or kind in ("MFI", "OBV"):
            # gaps of more than a decade between consecutive bars (a ratio test on prices survives rescaling but not a shift)
            bs = []
            for k in range(120 if q else 600):
                base = rng.choice([1, 1, 2, 13, 25, 40]) if k % 3 else rng.choice([1, 30])
                hi_ = base + rng.randint(0, 2)
                lo_ = max(1, base - rng.randint(0, 1))
                bs.append(bar(hi_, lo_, rng.randint(lo_, hi_), v=rng.choice([0, 1, 2, 5])))
            jobs.append(scripted("%s_gaps" % kind, {1: kcfg(kind, rng.choice([1, 2, 3, 5]), alt=2)}, [new_op(1)] + [b_op(1, b) for b in bs], noovf=False, invariants=inv))
    return {
        "jobs": jobs, "parallel": 12,
        "rule": "(a) on the specification: for 21 kinds (RSI excluded) and factors/shifts (2,0), (3,0), (2,-1), (3,2), (1,2), TLC checks on every input sequence up to "
                "length 4-5 over {1,2,3} (bars: 3-4 bars from the curated alphabets) that the exact reference of the moved history equals the moved reference, as the "
                "dimension table (level / spread / variance / ratio / volume) says, and MAX(x) = -MIN(-x); (b) on the real crate: every transition of closed / "
                "depth-bounded models and seeded streams is run at four base units and again scaled by 2^k (k = -40..40), by 3, 0.7, 1e3, 1/3 and shifted by 1e3, 2^20, "
                "1e6+0.5 units; outputs must agree within 1e-12 relative for powers of two, 1e-9 otherwise (spread-type outputs under a shift: plus 1e-13 * "
                "magnitude * (1+t); ratios: times the spec's condition number)",
        "assumptions": COMMON_ASSUME + ["'unchanged within rounding' under a shift is read as 1e-9 relative plus 1e-13 of the shifted magnitude per step"],
    }


COMPOSITES = ["BB", "SLOW_STOCH", "ATR", "MACD", "PPO", "KC", "CE", "CCI", "RSI"]


def plan_C15(tier, seed):
    q = tier == "quick"
    rng = random.Random(seed * 1000000007 + 15)
    jobs = []
    inv = ("Refines", "Safe", "PartsAgree")
    hb = hlc_bars()
    for kind in COMPOSITES:
        for n in ((1, 2, 3) if q else (1, 2, 3, 4)):
            for alt in ((0,) if q else (0, 1)):
                a = kcfg(kind, n, alt=n + alt)
                if kind in ("CCI", "CE"):
                    sa, ba = set(), (OSC_BARS if kind == "CCI" else hb)
                elif kind in ("SLOW_STOCH", "ATR", "KC") and alt == 0 and n <= 2:
                    sa, ba = set(), hb
                else:
                    sa, ba = (A5 if kind in ("BB", "MACD", "KC", "ATR", "PPO") else P3), []
                closed_kind = kind in ("BB", "CCI")
                depth = 10**6 if closed_kind and n <= 3 else (n + 3 if ba or kind in ("MACD", "PPO", "KC") else n + 4)
                if ba and n >= 3:
                    ba = ba[:6]
                jobs.append(Job("%s_n%d_%d" % (kind, n, alt), {1: a}, salpha=sa, balpha=ba, resets=({1} if n <= 2 else ()), maxdepth=depth,
                                noovf=(kind != "RSI"), invariants=inv))
        if kind == "BB":
            # spikes of 10^6 and 10^8 passing through the shortest windows (as in C01): afterwards the deviation part may report exactly 0
            # on a window that is not constant, and the middle band must still be the SMA part's mean
            for n in (1, 2):
                jobs.append(Job("BB_spike_n%d" % n, {1: kcfg("BB", n, alt=n)}, salpha=A3 | {BIG, 100 * BIG}, noovf=False, invariants=inv))
        for rep in range(2 if q else 6):
            n = rng.choice([2, 3, 5, 9, 14, 20, 26, 50])
            a = cfg(kind, n, n2=rng.choice([1, 3, 9, 26]), n3=rng.choice([1, 9]), m=rng.choice(MULTS))
            L = 3000 if q else 15000
            if kind in ("CCI", "CE") or (kind in ("SLOW_STOCH", "ATR", "KC") and rep % 2):
                ops = [b_op(1, b) for b in rand_bars(rng, L)]
            else:
                lo_ = -30 if (kind in ("MACD", "PPO", "KC", "BB") and rep % 2 == 0) else 1      # any sign: negative and sign-crossing prices
                xs = stream_patterns(rng, L, lo_, 30, lively=True)
                if rng.random() < 0.5:
                    xs[rng.randrange(L)] = BIG
                ops = [s_op(1, x) for x in xs]
            for _ in range(rng.randint(0, 3)):
                ops.insert(rng.randrange(len(ops)), {"op": "reset", "i": 1})
            cut = rng.randrange(len(ops) // 3, 2 * len(ops) // 3)
            ops = ops[:cut] + [{"op": "save", "i": 1, "s": 1}, {"op": "restore", "s": 1, "j": 2}] + [dict(o, i=2) for o in ops[cut:]]
            jobs.append(scripted("%s_str%d_n%d" % (kind, rep, n), {1: a, 2: a}, [new_op(1)] + ops, slots={1}, noovf=False, invariants=inv))
    # the composite obtained through Default::default() against parts built with the DOCUMENTED defaults (C11's table)
    DOC_DEFAULTS = {"BB": (9, 1, 1, 2), "KC": (10, 1, 1, 2), "CE": (22, 1, 1, 3), "MACD": (12, 26, 9, 2), "PPO": (12, 26, 9, 2),
                    "SLOW_STOCH": (14, 3, 1, 2), "ATR": (14, 1, 1, 2), "CCI": (20, 1, 1, 2), "RSI": (14, 1, 1, 2)}
    for kind, (n, n2, n3, m) in DOC_DEFAULTS.items():
        a = cfg(kind, n, n2=n2, n3=n3, m=Fr(m), dflt=True)
        L = 150 if q else 600
        ops = [b_op(1, b) for b in rand_bars(rng, L)] if kind in ("CCI", "CE", "KC") else [s_op(1, x) for x in stream_patterns(rng, L, 1, 30, lively=True)]
        jobs.append(scripted("%s_default" % kind, {1: a}, [new_op(1)] + ops, noovf=False, invariants=inv))
    return {
        "jobs": jobs, "parallel": 12,
        "min_counts": {"wired_parts_compared": 9 * 500},
        "min_by_kind": {"kinds": COMPOSITES, "relational": 300},
        "rule": "TaRef defines every composite twice: by its documented formula (RefStep) and as the composition of the reference semantics of its public parts "
                "(PartsStep: SMA+SD for BB, EMA of FAST_STOCH, EMA of TR, three EMAs, EMA+ATR, MAX+MIN+ATR, SMA+MAD of the typical price); the invariant PartsAgree "
                "is model-checked on closed / depth-bounded models; every transition and seeded streams of 3 000-15 000 inputs are replayed with the real composite "
                "AND real, separately constructed parts wired the same way (RSI as two EMAs of gains/losses seeded 0.1); outputs are compared with the classes of the "
                "spec (tau*M, variances for the Bollinger half-width, condition number for CCI / SLOW_STOCH / PPO)",
        "assumptions": COMMON_ASSUME + ["the wiring of the real parts in the harness (replay.rs, Parts) mirrors PartsStep by hand"],
    }


def plan_C18(tier, seed):
    q = tier == "quick"
    rng = random.Random(seed * 1190494759 + 18)
    jobs = []
    inv = ("Safe",)
    total = 100000 if q else 1000000
    def shape_segments(kind, shape, n):
        def mk(xs):
            if kind in BAR_ONLY:
                return [{k: v for k, v in b_op(1, bar(x + 1, max(1, x - 1), x, o=x, v=(1 + k % 3))).items() if k != "i"} for k, x in enumerate(xs)]
            return [{"op": "s", "x": x} for x in xs]
        if shape == "falling":
            return [(mk([total + 10]), total, -1)]
        if shape == "rising":
            return [(mk([5]), total, 1)]
        if shape == "alternating":
            return [(mk([3, 40]), total // 2, 0)]
        if shape == "flat":
            return [(mk([rng.randint(1, 30) for _ in range(3 * n + 7)]), 1, 0), (mk([17]), total, 0)]
        if shape == "sawfall":   # long falls interrupted by jumps
            return [(mk(list(range(2000, 0, -1))), total // 2000, 0)]
        return [(mk([rng.randint(1, 50) for _ in range(997)]), total // 997, 0)]
    shapes = ["falling", "rising", "alternating", "flat", "sawfall", "random"]
    for ki, kind in enumerate(ALL22):
        for si, shape in enumerate(shapes):
            if q and (ki + si + seed) % 2 and shape not in ("falling", "flat"):
                continue
            n = rng.choice([1, 2, 5, 14, 20, 64, 200, 512])
            c = kcfg(kind, n, alt=si)
            segs = shape_segments(kind, shape, n)
            tot = sum(len(p) * r for p, r, _ in segs)
            samples = {1, 2, tot, max(1, tot // 3)}
            reset_at = (3 * n + 11) if (ki + si) % 2 == 0 else 0       # every other stream: a reset after some activity, then the long run
            if kind not in UNBOUNDED and kind not in ("TR",):
                jobs.append(stream_job("%s_%s_n%d" % (kind, shape, n), kind, c, segs, samples, prop="C18", reset_at=reset_at))
            else:
                # kinds without a window state: the stream model has no closed form for them; run the shape through the harness only,
                # with the bound from the specification's SizeBound table (checked for these kinds by the short TaSystem models below)
                jobs.append(stream_job("%s_%s_n%d" % (kind, shape, n), "SMA" if kind not in BAR_ONLY else "CCI", c, segs, samples, prop="C18", reset_at=reset_at))
                jobs[-1].sched["kind"] = kind
    # short runs with serialization after every step, all kinds, periods 1..512: size under the bound at every step
    for kind in ALL22:
        ids, ops = {}, []
        periods = [1, 2, 3, 7, 20, 64, 200, 512] if q else [1, 2, 3, 4, 5, 7, 9, 14, 20, 33, 64, 100, 128, 200, 256, 511, 512]
        if kind in ("TR", "OBV"):
            periods = [1]
        for k, n in enumerate(periods):
            i = k + 1
            ids[i] = kcfg(kind, n, alt=k)
            ops.append(new_op(i))
            xs = stream_patterns(rng, min(3 * n + 20, 260), 1, 30, lively=True)
            body = to_ops(kind, i, xs)
            for j, o in enumerate(body):
                ops.append(o)
                if j in (0, 1, n, n + 1, len(body) - 1):
                    ops.append({"op": "save", "i": i, "s": 1})
            ops += [{"op": "reset", "i": i}] + to_ops(kind, i, xs[:5])
            if k % 3 == 1 and n <= 20:   # many sessions on one instance: feed a little, reset, again (state must not grow per cycle)
                for cyc in range(30):
                    ops += to_ops(kind, i, xs[cyc % 7: cyc % 7 + 3]) + [{"op": "save", "i": i, "s": 1}, {"op": "reset", "i": i}]
                ops += to_ops(kind, i, xs[:4]) + [{"op": "save", "i": i, "s": 1}]
            if k % 3 == 0:      # a non-finite value (for MFI / OBV also as volume), then more inputs: the state must not start to grow
                # (long enough for a leak of one f64 per call to cross the bound 256 + 64 n, whatever the size at the trigger)
                tail = (xs * (2 + (9 * n + 40) // len(xs)))[:9 * n + 40] if n <= 200 else xs[:40]
                ops += [{"op": "tok", "i": i, "x": ["PInf", "NaN", "FMax"][k % 3]}] + to_ops(kind, i, tail)
            ops.append({"op": "drop", "i": i})
        jobs.append(scripted("%s_sizes" % kind, ids, ops, slots={1}, noovf=False, invariants=inv))
    return {
        "jobs": jobs, "parallel": 8,
        "min_counts": {"heap_checked": 22 * 10000, "size_checked": 22 * 50},
        "min_by_kind": {"kinds": ALL22, "relational": 10000},
        "rule": "per kind and stream shape (strictly falling, strictly rising, alternating, flat after activity, long falls with jumps, random) an intensional schedule "
                "(Streams.tla, with ramp segments) of 10^5 (quick) / 10^6 (thorough) inputs for periods sampled from 1..512 is expanded into real calls; the net heap "
                "bytes allocated inside next() (counting allocator, per thread) since construction must stay under SizeBound(kind, p) = 256 + 64 * sum of periods from the "
                "specification, and the bincode length is sampled (every step up to 600, then every 97th) against the same bound (constancy of the size is not "
                "demanded: the property states a bound); plus scripted short runs for periods 1..512 with Save at the spec's checkpoints, reset cycles, and "
                "non-finite inputs followed by 9n + 40 further calls",
        "assumptions": ["heap use is measured by a counting global allocator inside the harness process, around each call of next()",
                        "for kinds with unbounded reference memory the stream model carries no value expectation (only the bound and the shape)"],
    }


PLANS = {
    "C15": plan_C15,
    "C18": plan_C18,
    "C14": plan_C14,
    "C13": plan_C13,
    "C11": plan_C11,
    "C16": plan_C16,
    "C07": plan_C07,
    "C08": plan_C08,
    "C09": plan_C09,
    "C12": plan_C12,
    "C17": plan_C17,
    "C10": plan_C10,
    "C04": plan_C04,
    "C05": plan_C05,
    "C06": plan_C06,
    "C01": plan_C01,
    "C03": plan_C03,
    "C02": plan_C02,
}


# ---------------------------------------------------------------------------------------------
# impl -> spec: the driver records a trace of the real crate, TLC validates it against TaTrace.tla

def trace_stage_factory(threads, ops_quick, ops_thorough, faults, seed_salt=0):
    import os, json, subprocess, time, shutil, re
    import tlagen

    def stage(prop, tier, seed, WORK, BIN):
        d = os.path.join(WORK, prop, "trace")
        shutil.rmtree(d, ignore_errors=True)
        os.makedirs(d)
        nops = ops_quick if tier == "quick" else ops_thorough
        seed = seed * 1000 + seed_salt
        p = subprocess.run([BIN, "drive", "--seed", str(seed), "--threads", str(threads), "--ops", str(nops), "--faults", "1" if faults else "0", "--out", d],
                           stdout=subprocess.PIPE, stderr=subprocess.STDOUT, text=True)
        if p.returncode != 0:
            raise ToolError("driver failed: " + p.stdout[-500:])
        return validate_trace(prop, d, {"seed": seed, "threads": threads, "ops": nops, "faults": faults})
    return stage


def validate_trace(prop, d, how):
    import os, json, subprocess, time, shutil, re
    import tlagen
    meta = json.load(open(os.path.join(d, "cfgs.json")))
    cfgs = {}
    for k, c in meta["cfgs"].items():
        cfgs[int(k)] = {"kind": c["kind"], "n": c["n"], "n2": c["n2"], "n3": c["n3"], "m": Fr(c["m"][0], c["m"][1]), "seed": Fr(c["seed"][0], c["seed"][1]), "dflt": False}
    for f in os.listdir(tlagen.SPEC_DIR):
        if f.endswith(".tla"):
            shutil.copy(os.path.join(tlagen.SPEC_DIR, f), d)
    mod = "---- MODULE MC_trace ----\nEXTENDS TaTrace\nmcIds == %s\nmcSlots == %s\nmcCfgOf == %s\n====\n" % (
        tlagen.tla(set(cfgs.keys())), tlagen.tla(set(meta["slots"])), tlagen.tla(cfgs))
    cfgt = """CONSTANTS
 Ids <- mcIds
 Slots <- mcSlots
 CfgOf <- mcCfgOf
 Initial = {}
 SAlpha = {}
 BAlpha = {}
 Toks = {}
 Resets = {}
 Clones = {}
 Saves = {}
 Restores = {}
 News = {}
 MaxDepth = 100000000
 KeepHistory = FALSE
 UseScript = TRUE
 Script <- TraceEvents
 Conts = {}
 FreeIds = {}
 CovA = 0
 CovB = 0
INIT Init
NEXT TraceNext
VIEW view
INVARIANT Refines
INVARIANT Safe
POSTCONDITION TraceAccepted
CHECK_DEADLOCK FALSE
"""
    open(os.path.join(d, "MC_trace.tla"), "w").write(mod)
    open(os.path.join(d, "MC_trace.cfg"), "w").write(cfgt)
    env = dict(os.environ)
    env["TRACE"] = "trace.ndjson"
    env["JAVA_TOOL_OPTIONS"] = "-Xss512m -Xmx4g -XX:+UseParallelGC"
    t0 = time.time()
    out = os.path.join(d, "tlc.out")
    with open(out, "w") as fo:
        p = subprocess.run(["timeout", "1500", "tlc", "-workers", "1", "-metadir", os.path.join(d, "meta"), "-cleanup", "-noGenerateSpecTE",
                            "-config", "MC_trace.cfg", "MC_trace.tla"], cwd=d, stdout=fo, stderr=subprocess.STDOUT, env=env)
    text = open(out).read()
    shutil.rmtree(os.path.join(d, "meta"), ignore_errors=True)
    m = re.search(r"(\d+) states generated, (\d+) distinct states found", text)
    states = int(m.group(2)) if m else 0
    n_events = meta["events"]
    res = {"job": "trace", "prop": prop, "traces": 0, "tlc_states": states, "tlc_distinct": states, "stats": {}, "violations": [], "violations_total": 0,
           "coverage": {"trace_validation": dict(how, events=n_events, instances=len(cfgs), accepted=False, tlc_wall_s=round(time.time() - t0, 1))}}
    rej = re.search(r'"TRACE-REJECTED at event", (\d+), "of", (\d+)', text)
    if "No error has been found" in text and not rej:
        res["traces"] = 1
        res["coverage"]["trace_validation"]["accepted"] = True
        res["stats"] = {"behaviours": 1, "steps": n_events}
        return res
    if rej or "Invariant" in text and "is violated" in text:
        k = int(rej.group(1)) if rej else states
        lines = open(os.path.join(d, "trace.ndjson")).read().splitlines()
        ev = json.loads(lines[k - 1]) if 0 < k <= len(lines) else {}
        inst = ev.get("i", ev.get("j"))
        hist = [json.loads(l) for l in lines[:k] if json.loads(l).get("i") == inst or json.loads(l).get("j") == inst][-12:]
        c = meta["cfgs"].get(str(inst), {})
        res["violations_total"] = 1
        res["violations"] = [{"property": prop, "clause": "trace-rejected", "line": 0, "step": k, "kind": c.get("kind"), "per": [c.get("n"), c.get("n2"), c.get("n3")],
                              "mult": 0.0, "t": ev.get("t", 0), "unit": {"a": 1.0, "b": 0.0, "av": 1.0, "big": 1e6},
                              "detail": {"first_unmatched_event": ev, "recent_events_of_that_instance": hist, "how": how,
                                         "note": "the specification does not allow this event after the recorded prefix"}}]
        res["trace_replay"] = {"how": how}
        return res
    raise ToolError("trace validation: TLC failed: " + " | ".join([l for l in text.splitlines() if "rror" in l][:6]))


def cursor_proof_stage(prop, tier, seed, WORK, BIN):
    """C12: the index invariant of the ring cursor / counters for an ARBITRARY period, proved by TLAPS (spec/Cursor.tla),
    and model-checked by TLC for every period 1..64."""
    import os, subprocess, shutil, re, time
    import tlagen
    d = os.path.join(WORK, prop, "cursor")
    shutil.rmtree(d, ignore_errors=True)
    os.makedirs(d)
    shutil.copy(os.path.join(tlagen.SPEC_DIR, "Cursor.tla"), d)
    shutil.copy(os.path.join(tlagen.SPEC_DIR, "TLAPS.tla"), d)     # the proof system's standard module, so that TLC can parse Cursor.tla too
    t0 = time.time()
    p = subprocess.run(["timeout", "600", "tlapm", "--threads", "4", "Cursor.tla"], cwd=d, stdout=subprocess.PIPE, stderr=subprocess.STDOUT, text=True)
    m = re.search(r"All (\d+) obligations? proved", p.stdout)
    if not m:
        raise ToolError("TLAPS did not prove spec/Cursor.tla: " + p.stdout[-600:])
    n = int(m.group(1))
    # TLC: the same invariant for every period 1..64, run to the fixpoint of the counters
    states = 0
    mc = "---- MODULE MC_cursor ----\nEXTENDS Cursor\n====\n"
    for per in range(1, 65):
        open(os.path.join(d, "MC_cursor.tla"), "w").write(mc)
        open(os.path.join(d, "MC_cursor.cfg"), "w").write("CONSTANT P = %d\nINIT Init\nNEXT Next\nINVARIANT Inv\nCHECK_DEADLOCK FALSE\n" % per)
        if per in (1, 2, 3, 7, 64) or tier == "thorough":
            q = subprocess.run(["timeout", "120", "tlc", "-workers", "1", "-metadir", os.path.join(d, "meta"), "-cleanup", "-noGenerateSpecTE",
                                "-config", "MC_cursor.cfg", "MC_cursor.tla"], cwd=d, stdout=subprocess.PIPE, stderr=subprocess.STDOUT, text=True)
            if "No error has been found" not in q.stdout:
                raise ToolError("TLC refuted the cursor invariant for P=%d: %s" % (per, q.stdout[-400:]))
            mm = re.search(r"(\d+) distinct states found", q.stdout)
            states += int(mm.group(1)) if mm else 0
    shutil.rmtree(os.path.join(d, "meta"), ignore_errors=True)
    return {"job": "cursor-proof", "traces": 0, "tlc_states": states, "tlc_distinct": states, "stats": {}, "violations": [], "violations_total": 0,
            "coverage": {"obligations": n, "discharged": n, "checker_cmd": "tlapm --threads 4 spec/Cursor.tla",
                         "trusted_base": ["tlapm 1.6.0-pre and its SMT / Zenon / Isabelle / PTL back ends", "the transcription of the cursor update into Cursor.tla"],
                         "cursor_proof_wall_s": round(time.time() - t0, 1)}}
