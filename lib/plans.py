"""Which TLC models decide which property, per tier.  Every job is an instance of spec/TaSystem.tla."""
import random
from fractions import Fraction as Fr
from tlagen import Job, cfg, bar


class ToolError(Exception):
    pass


A5 = {-2, -1, 0, 1, 2}
A3 = {-1, 0, 2}
P3 = {1, 2, 3}
BIG = 1000000
MULTS = [Fr(2), Fr(1, 2), Fr(0), Fr(3), Fr(-1)]

WINDOWED = ["SMA", "WMA", "SD", "MAD", "MIN", "MAX", "BB"]


def closed(name, kind, n, salpha=(), balpha=(), m=Fr(2), n2=1, n3=1, seed=Fr(1, 10), **kw):
    return Job(name, {1: cfg(kind, n, n2, n3, m, seed)}, salpha=salpha, balpha=balpha, **kw)


# ---------------------------------------------------------------------------------------------
# scripted streams: Python chooses the op sequence (seeded), TLC is the oracle along it

def scripted(name, cfgs, script, **kw):
    kw.setdefault("emit", "EmitStep")
    kw.setdefault("keep", False)
    return Job(name, cfgs, initial=(), script=script, **kw)


def new_op(i):
    return {"op": "new", "i": i}


def s_op(i, x):
    return {"op": "s", "i": i, "x": x}


def b_op(i, b):
    d = {"op": "b", "i": i}
    d.update(b)
    return d


def rand_walk(rng, length, lo, hi, start=None):
    x = rng.randint(lo, hi) if start is None else start
    out = []
    for _ in range(length):
        step = rng.choice([-3, -2, -1, -1, 0, 0, 1, 1, 2, 3])
        x = min(hi, max(lo, x + step))
        out.append(x)
    return out


def stream_patterns(rng, length, lo, hi, lively=False):
    """a seeded scalar stream mixing regimes: random walk, alternating extremes, plateau, saw-tooth, spikes.
    lively: mostly independent draws, so that the value entering and the value leaving a window differ at
    nearly every step (flat stretches have their own check, C08)."""
    out = []
    while len(out) < length:
        r = rng.randint(0, 5)
        if lively and rng.random() < 0.8:
            r = 4
        seg = rng.randint(3, 12 if lively else 40)
        if r == 0:
            out += rand_walk(rng, seg, lo, hi)
        elif r == 1:
            out += [lo if k % 2 else hi for k in range(seg)]
        elif r == 2:
            out += [rng.randint(lo, hi)] * seg
        elif r == 3:
            out += [lo + (k % (hi - lo + 1)) for k in range(seg)]
        elif r == 4:
            out += [rng.randint(lo, hi) for _ in range(seg * 4)]
        else:
            base = rng.randint(lo, hi)
            out += [base] * (seg // 2) + [hi if base < (lo + hi) // 2 else lo] + [base] * (seg // 2)
    return out[:length]


# ---------------------------------------------------------------------------------------------
def plan_C01(tier, seed):
    jobs = []
    nmax_full = 4 if tier == "quick" else 5
    for kind in WINDOWED:
        for n in range(1, 6):
            alpha = A5 if n <= nmax_full else A3
            m = MULTS[(n - 1) % len(MULTS)]
            # reset is part of every history: t counts inputs since construction or reset
            jobs.append(closed("%s_n%d" % (kind, n), kind, n, salpha=alpha, m=m, resets={1} if n <= 3 else ()))
        if tier == "thorough":
            # wider alphabet for short periods, and the other multipliers
            for n in (1, 2, 3):
                jobs.append(closed("%s_n%d_a7" % (kind, n), kind, n, salpha={-3, -2, -1, 0, 1, 2, 3}, m=MULTS[(n + 1) % 5]))
    # sampled large periods on seeded streams (TLC as oracle along a Python-chosen script)
    rng = random.Random(seed * 7919 + 1)
    nsamp = 4 if tier == "quick" else 24
    periods = sorted(set([rng.choice([6, 7, 8, 9, 10, 12, 14, 16, 20, 26, 33, 50, 64, 100, 128, 200, 255, 256, 257, 512, 1000, 1024])
                          for _ in range(nsamp)] + ([1024] if tier == "thorough" else [])))
    for k, n in enumerate(periods):
        kind = WINDOWED[(k + seed) % len(WINDOWED)]
        kinds = [kind] if tier == "quick" else [kind, WINDOWED[(k + seed + 3) % len(WINDOWED)]]
        for kd in kinds:
            length = min(3 * n + 50, 1300 if tier == "quick" else 3200)
            xs = stream_patterns(rng, length, -30, 30)
            script = [new_op(1)] + [s_op(1, x) for x in xs]
            jobs.append(scripted("%s_big_n%d" % (kd, n), {1: cfg(kd, n, m=rng.choice(MULTS))}, script))
    # long runs of short periods (thousands of wrap-arounds; accumulators that resynchronise periodically)
    for kind in WINDOWED:
        for rep in range(2 if tier == "quick" else 4):
            n = rng.choice([1, 2, 3, 4, 5, 7, 9])
            length = 9000 if tier == "quick" else (70000 if rep == 0 else 20000)
            xs = stream_patterns(rng, length, -9, 9, lively=True)
            script = [new_op(1)] + [s_op(1, x) for x in xs]
            jobs.append(scripted("%s_long%d_n%d" % (kind, rep, n), {1: cfg(kind, n, m=rng.choice(MULTS))}, script))
    return {
        "jobs": jobs,
        "parallel": 12,
        "exhaustive": False,
        "rule": "closed TaSystem models (every reachable (ring contents, cursor, counter) state and every transition out of it) for "
                "SMA/WMA/SD/MAD/MIN/MAX/BB with period 1..5 over alphabets with ties, sign changes and zero; one behaviour per "
                "transition (BFS path + the transition), replayed at every price unit; plus seeded scripted streams for sampled "
                "periods up to 1024 and long runs; a case is distinct by (kind, period, literal input history)",
        "assumptions": [
            "expected values are exact rationals computed by TLC on integer lattice prices; the real crate is fed the affine image a*k+b of the lattice",
            "inputs are affine images of small-integer lattices (<= 61 levels), not arbitrary doubles",
            "TLC, the CommunityModules Json module and serde_json are trusted",
        ],
    }


PLANS = {
    "C01": plan_C01,
}
