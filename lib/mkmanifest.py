#!/usr/bin/env python3
"""Regenerates /verif/MANIFEST.json from the table below (run after adding a check)."""
import json, os, sys

ROOT = os.path.dirname(os.path.dirname(os.path.abspath(__file__)))
sys.path.insert(0, os.path.join(ROOT, "lib"))

TECH = "TLA+ specification (TaSystem: reference TaRef + implementation-shaped TaImpl) model-checked with TLC; "
CHECKS = {
    "C01": dict(
        text="TLC explores the closed state space (every reachable ring content, cursor and counter state, hence every history of every "
             "length over the alphabet) of the windowed statistics for periods 1..5, checks on every state that the transcribed incremental "
             "algorithm equals the textbook definition in exact rational arithmetic, and emits one behaviour per transition; every behaviour, "
             "and seeded scripted streams for periods up to 1024 and runs of 9 000-70 000 inputs, is replayed into the real crate at 10-45 "
             "price units and compared with the exact expectation under the property's own tolerance.",
        note="Inputs are affine images of small-integer lattices, not arbitrary doubles; TLC's exact arithmetic is limited to 32-bit "
             "integers; TLC, the Json community module, serde_json and the comparison code of the harness are trusted.",
        technique=TECH + "every transition of the closed state graph replayed into the real crate and compared with TLC's exact rational expectation",
        ref="6 (C01), 3, 4"),
}

NOT_APPLICABLE = {
    "C19": "trait bounds and auto traits are decided by the Rust type checker over all client programs; a TLA+ specification of "
           "behaviours has no counterpart for them (DESIGN.md section 6, C19). By-product only: the harness adapter requires the "
           "documented traits of all 22 types, so removing one breaks the harness build (tool error, exit 2).",
}


def main():
    props = [json.loads(l)["id"] for l in open(os.path.join(ROOT, "properties.jsonl"))]
    checks = []
    for pid in props:
        if pid not in CHECKS:
            continue
        c = CHECKS[pid]
        checks.append({
            "property_id": pid,
            "quick_cmd": "./check %s --tier quick" % pid,
            "thorough_cmd": "./check %s --tier thorough" % pid,
            "evidence_file": "evidence/%s.json" % pid,
            "replay_cmd_template": "./check %s --replay {path}" % pid,
            "engine": "tlc+replay",
            "level_claimed": {"category": "model_checking", "text": c["text"], "design_ref": c["ref"]},
            "level_note": c["note"],
            "technique": c["technique"],
        })
    na = [{"property_id": p, "reason": r} for p, r in NOT_APPLICABLE.items()]
    for pid in props:
        if pid not in CHECKS and pid not in NOT_APPLICABLE:
            na.append({"property_id": pid, "reason": "check under construction in this round (planned in DESIGN.md section 6); not claimed until it is sound"})
    man = {
        "version": 1,
        "setup_cmd": "cd harness && cargo build --release --offline && cd ../spec && ./parse-all.sh",
        "hooks": {
            "guard": "ta_verif",
            "enable": "no source hooks are needed: the library is sequential and its public API (return values of next, Display, period(), "
                      "serde bytes) exposes everything the properties talk about; the guard name is reserved and no source commit carries it",
            "baseline_off_cmd": "cd /repo && cargo test --workspace --no-fail-fast --offline",
            "source_commits": [],
            "add_only": True,
        },
        "engines": [
            {"name": "tlc+replay", "path": "check", "serves_properties": [c["property_id"] for c in checks],
             "kind_free_text": "TLA+ specification in spec/ (Rat, TaRef, TaImpl, TaDim, TaSystem, ...) checked by TLC; conformance by replaying "
                               "TLC-generated behaviours into the real crate (harness/, Rust) and by validating recorded traces against the spec"},
        ],
        "checks": checks,
        "not_applicable": na,
        "notes": "Exit codes of ./check: 0 held, 1 violation (VIOLATION line + replay file), 2 tool error / spec-level failure / timeout. "
                 "VERIF_SEED seeds every random choice (scripted streams, sampled periods, random price units).",
    }
    json.dump(man, open(os.path.join(ROOT, "MANIFEST.json"), "w"), indent=1)
    print("wrote MANIFEST.json with %d checks, %d not_applicable" % (len(checks), len(na)))


if __name__ == "__main__":
    main()
