#!/usr/bin/env python3
"""Regenerates /verif/MANIFEST.json from the table below (run after adding a check)."""
import json, os, sys

ROOT = os.path.dirname(os.path.dirname(os.path.abspath(__file__)))
sys.path.insert(0, os.path.join(ROOT, "lib"))

TECH = "TLA+ specification (TaSystem: reference TaRef + implementation-shaped TaImpl) model-checked with TLC; "
CHECKS = {
    "C01": dict(
        text="TLC explores the closed state space (every reachable ring content, cursor and counter state, hence every history of every "
             "length over the alphabet) of the windowed statistics for periods 1..5, checks on every state that the transcribed incremental "
             "algorithm equals the textbook definition in exact rational arithmetic, and emits one behaviour per transition; every behaviour, "
             "and seeded scripted streams for periods up to 1024 and runs of 9 000-70 000 inputs, is replayed into the real crate at 10-45 "
             "price units and compared with the exact expectation under the property's own tolerance; the shortest models also contain 10^6 and 10^8 spikes and "
             "reset followed by fresh continuations from every reachable state. Also: one instance per period 6..40 (6..80), Bollinger multipliers 10^6 and 10^9 (the middle band is held to tau*M without multiplier slack), and instances deserialized from the checkpoint of a fresh / just-reset one.",
        note="Inputs are affine images of small-integer lattices, not arbitrary doubles; TLC's exact arithmetic is limited to 32-bit "
             "integers; TLC, the Json community module, serde_json and the comparison code of the harness are trusted.",
        technique=TECH + "every transition of the closed state graph replayed into the real crate and compared with TLC's exact rational expectation",
        ref="6 (C01), 3, 4"),
    "C02": dict(
        text="Depth-bounded exhaustive TLC exploration (all input sequences while the exact rational fits 32 bits) of EMA, TrueRange, ATR, "
             "MACD, KeltnerChannel and ChandelierExit over periods {1..5,7}, 6-64 period triples and five multipliers, scalar and bar inputs "
             "covering every TrueRange branch in every order; spec lemmas EmaLemma (recursion = closed-form sum over the whole history) and "
             "EmaConvex are model-checked; every transition is replayed into the real crate at 10-45 price units including 1e-18 and 3e10; "
             "long recursions (one run past 65 536 calls in the quick tier, 140 000 in the thorough tier) are decided by the restart equivalence licensed by the spec "
             "(an EMA's state is its last output); unvalidated bars (close outside [low, high], low above high) and reuse after reset are included.",
        note="Beyond the exact depth of TLC's 32-bit rationals (>= 8 steps for periods <= 5, 2-3 steps for periods >= 100) values are checked "
             "relationally, not against an exact number; inputs are affine images of integer lattices.",
        technique=TECH + "depth-bounded exhaustive behaviours replayed against exact rational expectations, plus restart-equivalence on long scripted runs",
        ref="6 (C02)"),
    "C03": dict(
        text="Closed TLC models of FAST_STOCH, ROC, ER, CCI and MFI (every reachable window/cursor state for periods up to 5/4/3) and depth-bounded "
             "exhaustive models of RSI (four seed/unit pairs), SLOW_STOCH, PPO and OBV, with a bar alphabet in which close differs from (high+low)/2, "
             "typical prices repeat and volume is 0/1/2; the transcribed algorithms are checked equal to the documented formulas on every state, and "
             "every transition plus seeded streams for periods up to 512 and runs of 9 000-30 000 bars is replayed into the real crate and compared "
             "under tau(t)*c*scale with the condition number c supplied by the specification. The lemma RsiFlat (an unchanged price leaves RSI unchanged while U+D is not zero) is model-checked and licenses the relational clause applied to flat runs far longer than the 32-bit rationals can follow.",
        note="Steps with a zero reference denominator or c > 1e6 are skipped and counted (they are C08's); expectations that hinge on a tie between "
             "derived sums are only compared at exact (power-of-two) price units; inputs are affine images of integer lattices.",
        technique=TECH + "every transition of closed / depth-bounded state graphs replayed against exact rational expectations with spec-supplied condition numbers",
        ref="6 (C03)"),
    "C04": dict(
        text="For each of the 22 kinds (periods 1..2 over {1,2,3}+spike+tokens and period 3 over a two-letter alphabet in the quick tier; periods 1..4 in the thorough tier) TLC explores every reachable state of the implementation-shaped model -- every "
             "ring content, cursor and counter position, including states tainted by NaN/+-inf/f64::MAX and a 10^6 spike, and states after earlier resets -- "
             "and from EVERY such state explores reset() followed by two (thorough: four) continuations of n+2 fresh values, keeping the history in the view so that these runs are not merged with the run from the initial state; the invariant ResetToInit (the transcribed reset re-creates exactly the state the transcribed new creates) is checked too; the transcribed field-by-field reset is checked to "
             "refine the fresh reference for all continuations; every transition is replayed: the real instance after reset() is compared step by step with a "
             "newly constructed real instance (1e-12 relative) and with the exact value, and period/multiplier/Display are compared before and after; plus "
             "seeded deep histories of thousands of operations with non-finite values and repeated resets.",
        note="Indistinguishability is observed through next() outputs, period(), multiplier() and Display; continuations are n+2 long, from four fixed patterns "
             "plus whatever the deep scripted histories contain.",
        technique=TECH + "reset explored from every reachable model state; real reset instance compared with a fresh real instance and with the exact expectation",
        ref="6 (C04)"),
    "C05": dict(
        text="TLC enumerates, per kind, every interleaving (no state merging, depth-bounded) of operations on an original, a clone taken at any point, an unrelated "
             "instance with another period and a late fresh instance, and a clone taken at EVERY reachable state of the closed model (periods 1..3) followed by interleaved "
             "continuations; a seeded multi-threaded driver additionally records a trace of the real crate on 16 threads which TLC validates against TaTrace.tla; "
             "clone_from into live instances of the same and of another period and separately constructed twins with longer windows are included; "
             "the behaviours are executed on 16 real threads and any two real instances with the same configuration and literal history must "
             "return bit-identical outputs -- within a behaviour, across behaviours and across threads -- and equal the specification's value. A signed-zero price unit (lattice 0 fed as -0.0 on odd calls) exposes tie-breaking between equal zeros, and the MXCSR control bits are read around every call (a call that changes the thread's floating-point environment has created hidden thread-local state).",
        note="Thread schedules are observed, not controlled; instances are never shared between threads (the API needs &mut self).",
        technique=TECH + "all interleavings of short multi-instance op sequences replayed on 16 threads with a cross-behaviour determinism map keyed by configuration and history",
        ref="6 (C05)"),
    "C06": dict(
        text="From EVERY reachable state of the closed model of each of the 22 kinds (fresh, warming up, full, wrapped, just reset; periods 1..3 in the quick tier with a two-letter alphabet for period 3, 1..4 thorough) "
             "TLC explores serialize + deserialize (once or twice in a row) followed by continuations fed to the original and all copies; the real crate is "
             "round-tripped through bincode at exactly those points: copies must agree within 1e-12 relative on every continuation step, keep "
             "Display/period/multiplier, stay under the size bound and equal the exact value; plus seeded long histories with random checkpoints after which all "
             "copies run for hundreds of steps.",
        note="bincode 1.3 is the format exercised; DataItem round trips are part of C16's check.",
        technique=TECH + "checkpoint/restore explored from every reachable model state; original and restored real instances compared on every continuation step",
        ref="6 (C06)"),
    "C07": dict(
        text="The spec invariant InRange (the exact reference of RSI, FAST_STOCH, SLOW_STOCH, MFI lies in [0,100] and of ER in [0,1] whenever its denominator is "
             "non-zero) is model-checked on closed / depth-bounded models; every transition and seeded regime streams of 6 000-40 000 steps (trends, one-tick "
             "oscillation, gaps, nearly flat, 10^6..10^9 spikes followed by small monotone ticks, widely varying volume, occasional resets) are replayed and the "
             "real output is range-checked at every step at which the specification says the reference denominator is non-zero.",
        note="Whether the denominator is zero is decided exactly on the integer lattice; MFI is checked with slack 100*tau(t)*c only when c <= 1000 as the property says.",
        technique=TECH + "range invariant on the reference plus range check of the real outputs on replayed transitions and long regime streams",
        ref="6 (C07)"),
    "C08": dict(
        text="From EVERY reachable state of the closed model of each of the 22 kinds (periods 1..4, 1..5 thorough) TLC explores a flat stretch of n+3 inputs at three "
             "price levels (zero-volume stretches at moving prices for MFI/OBV, and flat from the start after reset); plus seeded activity followed by flat stretches of "
             "1 500-5 000 bars (long enough for exponential averages to underflow); wherever the specification marks the window degenerate the real output must be "
             "finite, inside its documented range and equal to the neutral value where one is defined (FAST_STOCH 50, CCI 0, ROC 0, TR 0 exactly; MAD, SD and band "
             "widths within the stated margins), at dyadic and non-dyadic price units (cents and 1e-3 included); one-price bars and scalars alternating on one instance inside the flat stretch; and a sweep over 150 (600) seeded flat price levels per kind with an exact neutral value.",
        note="Degeneracy is decided by the specification on the lattice; a CCI window that is flat only through a tie of different bars is compared at exact units only.",
        technique=TECH + "flat continuations explored from every reachable model state and long flat scripted stretches, neutral / finite / range expectations from the spec",
        ref="6 (C08)"),
    "C09": dict(
        text="Spec invariants NonNeg and EmaConvex are model-checked; every transition of closed / depth-bounded models (SMA, WMA, SD, MAD, MIN/MAX, BB, EMA, TR, ATR, "
             "KC, CE, MACD, PPO; multipliers 0, 1/2, 2, 1000; resets) and seeded cancellation-engineered streams (10^6..10^17 spikes followed by flat stretches, "
             "offsets to 1e9) are replayed and the inequalities evaluated on the real outputs: SD/MAD/TR/ATR >= 0 and never NaN, MIN <= MAX, lower <= average <= upper, "
             "CE exits against the window extremes supplied by the spec, histogram = line - signal, SMA/WMA/EMA inside the window / history range; extra price units put "
             "the lattice one ulp apart on top of 1.2e11 and at negative levels, clones are stepped on their own, and Streams.tla supplies the window bounds for a period of 100 000.",
        note="Band, exit and histogram relations are checked with the property's slack; the evidence records how many held with zero slack.",
        technique=TECH + "inequality invariants on the reference plus their evaluation on real outputs for every replayed transition and cancellation-engineered streams",
        ref="6 (C09)"),
    "C10": dict(
        text="TLC executes TaSystem along seeded scripts in which, per kind, one instance gets bars with five independently varying fields, a second the same bars with "
             "every undocumented field perturbed, a third the documented field as a scalar, and a fourth/fifth a scalar vs a one-price bar; the specification supplies "
             "Eff(kind, input) -- exactly the numbers the kind is documented to read; real instances whose Eff histories agree must agree within 1e-12 relative, and "
             "DataItem must give bit-identical outputs to the user-defined bar type whenever the builder accepts the bar.",
        note="User types are represented by one local struct and DataItem; a vacuity guard fails the run if fewer than 2 200 cross-comparisons happened.",
        technique=TECH + "effective-input map Eff from the spec; real instances with equal Eff histories compared on scripted bar streams",
        ref="6 (C10)"),
    "C12": dict(
        text="TLC explores every sequence up to depth 4 (5) over ordinary values, NaN, +-inf, +-f64::MAX, a subnormal, -0.0, reset and inconsistent bars (also through the bar path of kinds that have both paths) for each kind "
             "and period 1..2 (1..3), and executes scripted runs of 3*period+3 calls for every period 1..64 (plus sampled up to 4096) with faults injected at varying "
             "cursor positions followed by reset and reuse; the spec invariant Safe (every ring index and counter in bounds in the transcribed algorithm) holds on "
             "all of them, and in the real crate -- built with overflow checks and debug assertions -- next, reset, clone, reset / next of a copy while the original and a second copy are alive, Display, Debug, bincode and serde_json "
             "must return normally after every op (catch_unwind); the index invariant of the ring cursor / counters is proved for EVERY period by TLAPS "
             "(spec/Cursor.tla, 17 obligations) and a trace of the real crate recorded by a fault-injecting driver on 8 threads is validated by TLC against TaTrace.tla.",
        note="Absence of panic and termination are what is observed; the cursor invariant for arbitrary periods is additionally stated in spec/Cursor.tla.",
        technique=TECH + "fault-sequence enumeration by TLC with index-safety invariant, replayed under catch_unwind with a returns-suite after every op",
        ref="6 (C12)"),
    "C17": dict(
        text="The specification's reference state of the 12 windowed kinds IS the window of the last n (n+1 for ROC/ER/MFI) inputs, and the transcribed algorithm is "
             "model-checked to refine it; TLC enumerates every input sequence (no state merging) a few steps longer than the window over {1,2,3, 10^6 spike} and "
             "executes seeded long histories with spikes; for every behaviour the real instance fed the whole history is compared with a fresh real instance fed "
             "only the last Memory(kind, p) inputs: exactly for MIN/MAX/FAST_STOCH, within tau(t)*M times the spec's condition number otherwise.",
        note="Memory(kind, p) comes from the specification (TaDim); ratios with a condition number above 1e6 are skipped and counted.",
        technique=TECH + "window-as-state reference; real whole-history vs bare-suffix comparison on every replayed behaviour",
        ref="6 (C17)"),
    "C11": dict(
        text="Ctor.tla states the constructor contract as tables (Err(InvalidParameter) iff some period argument is 0, Display text, period(), multiplier(), the documented "
             "defaults) and TLC enumerates every constructor call as an initial state: single periods 0..4096, all tuples over 0..24 for multi-period kinds, the boundary "
             "tokens 2^31, 2^32, 2^53+1, usize::MAX-1, usize::MAX in every position for the kinds that allocate no window, eight multipliers incl. 0, negative, -0.0 and "
             "NaN; every case is executed against the real constructor under catch_unwind, accessors and Display are compared after construction and again after "
             "next/reset/next, and Default::default() is compared bit by bit with new(documented defaults) on a 30-step stream.",
        note="Windowed kinds are constructed with periods up to 4096 only; the quick tier samples every 7th single period beyond 64 and tuples over 0..9.",
        technique="TLA+ tables of the constructor contract (Ctor.tla) enumerated exhaustively by TLC; every case replayed against the real constructors, accessors, Display and Default",
        ref="6 (C11)"),
    "C13": dict(
        text="Streams.tla gives long streams intensionally (segments = pattern x repetitions) and, because the reference state of a windowed kind is its window, states "
             "the exact expected output at any step t in closed form; TLC evaluates it at ~70 sampled steps (regime switches, multiples of 65536, log-uniform, the end) of "
             "seeded schedules of 2*10^5 (quick) / 2*10^6 (thorough) inputs mixing repeated random-walk patterns, alternating extremes, spikes, plateaus and saw-tooths; "
             "the harness expands each schedule into real calls at every price unit for SMA, WMA, SD, BB, MAD, CCI, MFI, MIN, MAX, compares at the sampled steps and checks "
             "at every step that the variance-based outputs are never NaN or negative.",
        note="Three-decade bands are run with periods <= 40 and periods up to 1000 with 46 price levels (32-bit exact arithmetic); expansion of the schedule is cross-checked "
             "against the spec's StreamAt at every sampled step.",
        technique="TLA+ intensional stream specification (Streams.tla over TaRef) evaluated by TLC at sampled steps; real runs of up to 2*10^6 calls compared there",
        ref="6 (C13)"),
    "C16": dict(
        text="DataItem.tla models the builder as five slots with last-call-wins setters and IEEE ordering on a ten-point float lattice; TLC explores it completely "
             "(all 11^5 = 161 051 slot states, invariants NaNRejected and LastWins) and prints one setter path per state plus every transition of a sub-lattice (a "
             "seeded sample of the 8 million transitions of the full lattice in the thorough tier) and finite integer tuples; each behaviour is executed against the "
             "real builder: build() result, getters bit-exact, clone equality, bincode round trip, and the fields an indicator reads from the item.",
        note="The lattice {-inf,-2,-1,-0.0,0.0,1,2,3,+inf,NaN} stands for all floats (every order type of four prices, every sign class of volume).",
        technique="TLA+ builder state machine (DataItem.tla) explored exhaustively by TLC; one behaviour per state / transition replayed against the real builder",
        ref="6 (C16)"),
    "C14": dict(
        text="On the specification TLC checks the theorem itself: for 21 kinds (RSI excluded) the exact reference of the history a*h+b equals the reference of h moved as "
             "the dimension table says (level, spread, variance, ratio, volume), for (a,b) in {(2,0),(3,0),(2,-1),(3,2),(1,2)} on every input sequence up to length 4-5, and "
             "MAX(x) = -MIN(-x) (invariants Covariant, MinMaxDual); on the real crate every transition of closed / depth-bounded models and seeded streams is run at four "
             "base units and again scaled by 2^k (k=-40..40) and by 3, 0.7, 1e3, 1/3 and shifted by 1e3, 2^20, 1e6+0.5 units, and outputs are compared as their dimension "
             "says: 1e-12 relative for powers of two, 1e-9 otherwise.",
        note="'Unchanged within rounding' under a shift is read as 1e-9 relative plus 1e-13 * shifted magnitude (* spread for variances) per step; ratios use the spec's condition number.",
        technique=TECH + "covariance theorem model-checked on the reference; metamorphic re-runs of TLC behaviours at related price units on the real crate",
        ref="6 (C14)"),
    "C15": dict(
        text="TaRef defines each composite twice -- by its documented formula and as the composition of the reference semantics of its public parts -- and the invariant "
             "PartsAgree is model-checked on closed / depth-bounded models; every transition and seeded streams of 3 000-15 000 inputs are replayed with the real composite "
             "and real, separately constructed parts wired the same way (SMA+SD, EMA of FAST_STOCH, EMA of TR, three EMAs for MACD/PPO, EMA+ATR, MAX+MIN+ATR, SMA+MAD of "
             "the typical price, and RSI as two EMAs seeded 0.1), compared under the spec's tolerance classes.",
        note="The hand wiring in the harness mirrors PartsStep; a vacuity guard requires at least 4 500 composite-vs-parts comparisons.",
        technique=TECH + "two independent definitions of each composite checked equal by TLC; real composite vs hand-wired real parts on every replayed behaviour",
        ref="6 (C15)"),
    "C18": dict(
        text="Streams.tla (with ramp segments) describes strictly falling / rising, alternating, flat-after-activity, saw-fall and random streams of 10^5 (quick) / 10^6 "
             "(thorough) inputs for all 22 kinds and periods sampled from 1..512; the harness expands them into real calls and measures, with a per-thread counting "
             "allocator, the net heap bytes allocated inside next() since construction -- which must stay under the spec's SizeBound(kind, p) -- and samples the bincode "
             "length (every step up to 600, then every 97th) against the same bound; plus scripted short runs with Save after the first, second, n-th, "
             "(n+1)-th and last input for periods 1..512, 30 feed/reset cycles, and non-finite inputs followed by 9n + 40 further calls.",
        note="Heap use is measured inside the harness process around each call of next(); the specification supplies the bound and the stream shapes.",
        technique="TLA+ intensional stream shapes (Streams.tla) and the SizeBound table; heap growth and serialized size measured on real runs of up to 10^6 calls",
        ref="6 (C18)"),
}

NOT_APPLICABLE = {
    "C19": "trait bounds and auto traits are decided by the Rust type checker over all client programs; a TLA+ specification of "
           "behaviours has no counterpart for them (DESIGN.md section 6, C19). By-product only: the harness adapter requires the "
           "documented traits of all 22 types, so removing one breaks the harness build (tool error, exit 2).",
}


def main():
    props = [json.loads(l)["id"] for l in open(os.path.join(ROOT, "properties.jsonl"))]
    checks = []
    for pid in props:
        if pid not in CHECKS:
            continue
        c = CHECKS[pid]
        checks.append({
            "property_id": pid,
            "quick_cmd": "./check %s --tier quick" % pid,
            "thorough_cmd": "./check %s --tier thorough" % pid,
            "evidence_file": "evidence/%s.json" % pid,
            "replay_cmd_template": "./check %s --replay {path}" % pid,
            "engine": "tlc+replay",
            "level_claimed": {"category": "model_checking", "text": c["text"], "design_ref": c["ref"]},
            "level_note": c["note"],
            "technique": c["technique"],
        })
    na = [{"property_id": p, "reason": r} for p, r in NOT_APPLICABLE.items()]
    for pid in props:
        if pid not in CHECKS and pid not in NOT_APPLICABLE:
            na.append({"property_id": pid, "reason": "check under construction in this round (planned in DESIGN.md section 6); not claimed until it is sound"})
    man = {
        "version": 1,
        "setup_cmd": "cd harness && cargo build --release --offline && cd ../spec && ./parse-all.sh",
        "hooks": {
            "guard": "ta_verif",
            "enable": "no source hooks are needed: the library is sequential and its public API (return values of next, Display, period(), "
                      "serde bytes) exposes everything the properties talk about; the guard name is reserved and no source commit carries it",
            "baseline_off_cmd": "cd /repo && cargo test --workspace --no-fail-fast --offline",
            "source_commits": [],
            "add_only": True,
        },
        "engines": [
            {"name": "tlc+replay", "path": "check", "serves_properties": [c["property_id"] for c in checks],
             "kind_free_text": "TLA+ specification in spec/ (Rat, TaRef, TaImpl, TaDim, TaSystem, ...) checked by TLC; conformance by replaying "
                               "TLC-generated behaviours into the real crate (harness/, Rust) and by validating recorded traces against the spec"},
        ],
        "checks": checks,
        "not_applicable": na,
        "notes": "Exit codes of ./check: 0 held, 1 violation (VIOLATION line + replay file), 2 tool error / spec-level failure / timeout. "
                 "VERIF_SEED seeds every random choice (scripted streams, sampled periods, random price units).",
    }
    json.dump(man, open(os.path.join(ROOT, "MANIFEST.json"), "w"), indent=1)
    print("wrote MANIFEST.json with %d checks, %d not_applicable" % (len(checks), len(na)))


if __name__ == "__main__":
    main()
